//! Driver for the loss-recovery state machine `Recovery` (src/recovery.rs), serving C06 (fast retransmit:
//! entry at three duplicates / selective-ACK evidence, not inside a timeout recovery, recovery point, exit on a
//! full ACK, what an episode may retransmit) and the "outside loss recovery" boundary of C05.
//!
//! The objects are real: a `Segments` queue, a `Recovery`, a `Cubic` behind a call-counting wrapper (`Spy`: it
//! forwards every call and counts on_enter_recovery / on_recovered), an `RttEstimator`.  The driver plays the
//! dispatcher around them and keeps the dispatcher's own variables (`last_sent_seq_nr`, RTO mode) exactly as
//! src/stream_dispatch.rs does:
//!
//!   ["n", una, nq, ns]   fresh objects; nq segments queued, the first ns transmitted
//!   ["q"]                enqueue(PAYLOAD, false)
//!   ["d"]                send_tx_queue, new data: the first item of iter_mut_for_sending(last_sent + 1) (one is
//!                        queued first if there is none): on_sent, last_sent = max(last_sent, seq)
//!   ["a", ack_nr, has, bytes, ty, wnd]
//!                        process_incoming_message: remove_up_to_ack, set_remote_window, congestion on_ack,
//!                        Recovery::on_ack(header, result, segments, last_sent, controller, now, rtt); then
//!                        process_all_incoming_messages: leave RTO mode if something was acknowledged, last_sent
//!                        catches up with snd_una - 1, pipe_estimate is recomputed while recovering.
//!                        has = 1: selective ACK = `SelectiveAck::new(set bits)` for exactly 8 bytes,
//!                        `SelectiveAck::deserialize(bytes)` otherwise; ty: 0 ST_DATA, 1 ST_FIN, 2 ST_STATE
//!   ["t"]                the retransmission timer fires (queue not empty): the first item of
//!                        iter_mut_for_sending(None) is sent, controller.on_retransmission_timeout,
//!                        rtte.on_rto_timeout, Recovery::on_rto_timeout(last_sent), last_sent = its seq_nr, RTO mode
//!   ["x"]                send_tx_queue, recovery branch (a transcription of `if let Some(rec) =
//!                        self.recovery.recovering_mut() { .. }` with a transport that always accepts), behind the
//!                        dispatcher's gate `if self.rto_retransmissions > 0 { return }` (RTO mode)
//! The clock advances 10 ms before every call.
//!
//!   unit_recov replay <cases.ndjson> <answers.ndjson> [k n]
//!       A case line is `[p, op]`: the calls of case p (0-based line number, must precede; -1: none) followed by
//!       `op`; the first call of every chain is an "n".  Every case runs from scratch on fresh objects.  Answer:
//!       `[ans, rtx, obs]` of the LAST call, or `{"panic": "op" | "obs", "at": index in the chain, "msg": ..}`.
//!   unit_recov script <scripts.ndjson> <out.ndjson>      `{"ops": [op, ..]}` per line -> record format
//!   unit_recov record <seed> <n> <out.ndjson>            about n lines of seeded random runs
//!
//! A record line: {"op", "ans", "rtx", "obs", "aux", "dbg", "panic", "msg"}
//!   ans  [is_recovering, recovery_point (-1: none), on_enter_recovery calls during the call, on_recovered calls
//!         during the call, fr (x only: the seq_nr of the first retransmission of the episode if this call made
//!         it, else -1)]
//!   rtx  x: the sequence numbers the pass retransmitted, in order
//!   obs  [snd_una, total_len_packets, last_sent, RTO mode, [0-based positions of the delivered segments]]
//!   aux  [Recovery::cwnd() is Some, Recovery::remaining_cwnd(wnd) is Some]
//!   dbg  [total_retransmitted_segments, high_rxt, Recovery::cwnd(), remaining_cwnd, Recovering::cwnd()] (-1: none;
//!        not judged)
//! A panic in the code under test is data ("panic": where; the run ends).

use std::io::BufRead;
use std::panic::{AssertUnwindSafe, catch_unwind};
use std::time::{Duration, Instant};

use librqbit_utp::raw::{Extensions, Type, UtpHeader, selective_ack::SelectiveAck};
use librqbit_utp::verif_api::{CongestionController, Cubic, Recovery, RttEstimator, Segments, SeqNr};
use serde_json::{Value, json};
use utp_verif_unit::{Out, Rng};

const PAYLOAD: usize = 100;
const MSS: usize = 100;

#[derive(Debug)]
struct Spy {
    inner: Cubic,
    entered: usize,
    recovered: usize,
}

impl CongestionController for Spy {
    fn window(&self) -> usize {
        self.inner.window()
    }
    fn sshthresh(&self) -> usize {
        self.inner.sshthresh()
    }
    fn set_mss(&mut self, mss: usize) {
        self.inner.set_mss(mss)
    }
    fn smss(&self) -> usize {
        self.inner.smss()
    }
    fn on_recovered(&mut self, new_cwnd_bytes: usize, new_sshthresh: usize) {
        self.recovered += 1;
        self.inner.on_recovered(new_cwnd_bytes, new_sshthresh)
    }
    fn on_ack(&mut self, now: Instant, len: usize, rtt: &RttEstimator) {
        self.inner.on_ack(now, len, rtt)
    }
    fn on_retransmission_timeout(&mut self, now: Instant) {
        self.inner.on_retransmission_timeout(now)
    }
    fn on_enter_recovery(&mut self, now: Instant) {
        self.entered += 1;
        self.inner.on_enter_recovery(now)
    }
    fn set_remote_window(&mut self, win: usize) {
        self.inner.set_remote_window(win)
    }
}

fn panic_msg(e: Box<dyn std::any::Any + Send>) -> String {
    if let Some(s) = e.downcast_ref::<&str>() {
        s.to_string()
    } else if let Some(s) = e.downcast_ref::<String>() {
        s.clone()
    } else {
        "panic".to_string()
    }
}

fn seq(v: i64) -> SeqNr {
    SeqNr(v.rem_euclid(65536) as u16)
}

fn int(v: &Value) -> i64 {
    v.as_i64().unwrap_or_else(|| panic!("integer expected: {v}"))
}

fn small(v: usize) -> i64 {
    v.min(1 << 30) as i64
}

struct Sut {
    segs: Segments,
    rec: Recovery,
    cc: Spy,
    rtte: RttEstimator,
    now: Instant,
    /// the dispatcher's last_sent_seq_nr
    last: SeqNr,
    /// the dispatcher's rto_retransmissions > 0
    blocked: bool,
    /// the dispatcher's last_remote_window
    wnd: u32,
}

fn sack_of(bytes: &[u8]) -> SelectiveAck {
    if bytes.len() == 8 {
        let bits: Vec<usize> = (0..64).filter(|i| bytes[i / 8] >> (i % 8) & 1 == 1).collect();
        SelectiveAck::new(bits.into_iter())
    } else {
        SelectiveAck::deserialize(bytes)
    }
}

fn send_next(sut: &mut Sut) {
    let now = sut.now;
    loop {
        let start = sut.last + 1;
        if let Some(mut it) = sut.segs.iter_mut_for_sending(Some(start)).next() {
            it.on_sent(now);
            let s = it.seq_nr();
            if s > sut.last {
                sut.last = s;
            }
            return;
        }
        let _ = sut.segs.enqueue(PAYLOAD, false);
    }
}

/// One call on the real objects.  Returns (fr, rtx).
fn call(sut: &mut Sut, op: &Value) -> (i64, Vec<i64>) {
    let a = op.as_array().expect("op is an array");
    let k = a[0].as_str().expect("op name");
    sut.now += Duration::from_millis(10);
    let now = sut.now;
    let mut fr = -1;
    let mut rtx = vec![];
    match k {
        "q" => {
            let _ = sut.segs.enqueue(PAYLOAD, false);
        }
        "d" => send_next(sut),
        "a" => {
            let has = int(&a[2]) != 0;
            let bytes: Vec<u8> = a[3].as_array().expect("sack bytes").iter().map(|b| int(b) as u8).collect();
            let htype = match int(&a[4]) {
                0 => Type::ST_DATA,
                1 => Type::ST_FIN,
                _ => Type::ST_STATE,
            };
            let wnd = int(&a[5]) as u32;
            let header = UtpHeader {
                htype,
                ack_nr: seq(int(&a[1])),
                wnd_size: wnd,
                extensions: Extensions {
                    selective_ack: if has { Some(sack_of(&bytes)) } else { None },
                    ..Default::default()
                },
                ..Default::default()
            };
            // process_incoming_message
            let res = sut.segs.remove_up_to_ack(now, &header);
            if let (false, Some(rtt)) = (sut.rec.is_recovering(), res.new_rtt) {
                sut.rtte.sample(rtt);
            }
            sut.cc.set_remote_window(wnd as usize);
            sut.cc.on_ack(now, res.acked_bytes, &sut.rtte);
            sut.wnd = wnd;
            sut.rec.on_ack(
                &header,
                &res,
                &mut sut.segs,
                sut.last,
                &mut sut.cc,
                now,
                sut.rtte.roundtrip_time(),
            );
            // process_all_incoming_messages
            if res.acked_segments_count > 0 || res.newly_sacked_segment_count > 0 {
                sut.blocked = false;
            }
            if res.acked_segments_count > 0 {
                let acked_up_to = sut.segs.snd_una() - 1;
                if sut.last < acked_up_to {
                    sut.last = acked_up_to;
                }
            }
            if let Some(rec) = sut.rec.recovering_mut() {
                rec.pipe_estimate = sut.segs.calc_pipe(rec.high_rxt, sut.last, sut.rtte.roundtrip_time(), now);
            }
        }
        "t" => {
            let mut sent = None;
            if let Some(mut seg) = sut.segs.iter_mut_for_sending(None).next() {
                seg.on_sent(now);
                sent = Some(seg.seq_nr());
            }
            if let Some(s) = sent {
                sut.cc.on_retransmission_timeout(now);
                sut.rtte.on_rto_timeout();
                sut.rec.verif_on_rto_timeout(sut.last);
                sut.last = s;
                sut.blocked = true;
            }
        }
        "x" => {
            // "We are in RTO retransmission mode, don't send anything."
            if sut.blocked {
                return (fr, rtx);
            }
            let Sut { segs, rec, last, .. } = sut;
            if let Some(rec) = rec.recovering_mut() {
                let high_rxt = rec.high_rxt;
                let recovery_point = rec.recovery_point();
                let sack_depth = segs.sack_depth();
                let first_of_episode = rec.total_retransmitted_segments() == 0;
                let mut it = segs
                    .iter_mut_for_sending(None)
                    .take(sack_depth + 1)
                    .skip_while(|seg| seg.seq_nr() <= high_rxt)
                    .take_while(|seg| seg.seq_nr() <= recovery_point)
                    .filter(|s| !s.is_delivered());
                let mut cwnd = rec.cwnd();
                while rec.total_retransmitted_segments() == 0 || cwnd > MSS {
                    let mut seg = match it.next() {
                        Some(seg) => seg,
                        None => break,
                    };
                    if rec.total_retransmitted_segments() > 0 {
                        if !seg.is_lost() {
                            continue;
                        }
                        if !seg.has_sacks_after_it() {
                            break;
                        }
                    }
                    // send_data! with a transport that accepts the datagram
                    seg.on_sent(now);
                    if seg.seq_nr() > *last {
                        *last = seg.seq_nr();
                    }
                    if first_of_episode && rtx.is_empty() {
                        fr = seg.seq_nr().0 as i64;
                    }
                    rtx.push(seg.seq_nr().0 as i64);
                    rec.high_rxt = seg.seq_nr();
                    rec.increment_total_transmitted_segments();
                    rec.pipe_estimate.pipe += seg.payload_size();
                    cwnd = cwnd.saturating_sub(seg.payload_size());
                }
            }
        }
        _ => panic!("unknown op {op}"),
    }
    (fr, rtx)
}

struct Seen {
    ans: Value,
    rtx: Value,
    obs: Value,
    aux: Value,
    dbg: Value,
}

fn observe(sut: &mut Sut, ent: usize, exi: usize, fr: i64, rtx: &[i64]) -> Seen {
    let recovering = sut.rec.is_recovering();
    let cw = sut.rec.cwnd();
    let rcw = sut.rec.remaining_cwnd(sut.wnd);
    let (point, trx, hrx, reccw) = match sut.rec.recovering_mut() {
        Some(r) => (
            r.recovery_point().0 as i64,
            small(r.total_retransmitted_segments()),
            r.high_rxt.0 as i64,
            small(r.cwnd()),
        ),
        None => (-1, -1, -1, -1),
    };
    let una = sut.segs.snd_una();
    let n = sut.segs.total_len_packets();
    let yielded: Vec<i64> = sut
        .segs
        .iter_mut_for_sending(None)
        .map(|it| (it.seq_nr().0.wrapping_sub(una.0)) as i64)
        .collect();
    let dlv: Vec<i64> = (0..n as i64).filter(|i| !yielded.contains(i)).collect();
    Seen {
        ans: json!([recovering as i64, point, ent as i64, exi as i64, fr]),
        rtx: json!(rtx),
        obs: json!([una.0 as i64, n as i64, sut.last.0 as i64, sut.blocked as i64, dlv]),
        aux: json!([cw.is_some() as i64, rcw.is_some() as i64]),
        dbg: json!([trx, hrx, cw.map(small).unwrap_or(-1), rcw.map(small).unwrap_or(-1), reccw]),
    }
}

enum Answer {
    Ok(Seen),
    Panic { whence: &'static str, msg: String },
}

fn fresh(op: &Value, base: Instant) -> (Sut, Answer) {
    let una = int(&op[1]);
    let nq = int(&op[2]);
    let ns = int(&op[3]);
    let mk = || Sut {
        segs: Segments::new(seq(una)),
        rec: Recovery::new(),
        cc: Spy { inner: Cubic::new(base, MSS), entered: 0, recovered: 0 },
        rtte: RttEstimator::default(),
        now: base,
        last: seq(una - 1),
        blocked: false,
        wnd: 1000,
    };
    let r = catch_unwind(AssertUnwindSafe(|| {
        let mut sut = mk();
        sut.cc.set_remote_window(1_000_000);
        for _ in 0..nq {
            let _ = sut.segs.enqueue(PAYLOAD, false);
        }
        for _ in 0..ns.min(nq) {
            sut.now += Duration::from_millis(1);
            send_next(&mut sut);
        }
        let seen = observe(&mut sut, 0, 0, -1, &[]);
        (sut, seen)
    }));
    match r {
        Ok((sut, seen)) => (sut, Answer::Ok(seen)),
        Err(e) => (mk(), Answer::Panic { whence: "op", msg: panic_msg(e) }),
    }
}

fn step(sut: &mut Sut, op: &Value) -> Answer {
    let (e0, x0) = (sut.cc.entered, sut.cc.recovered);
    let (fr, rtx) = match catch_unwind(AssertUnwindSafe(|| call(sut, op))) {
        Ok(r) => r,
        Err(e) => return Answer::Panic { whence: "op", msg: panic_msg(e) },
    };
    let (ent, exi) = (sut.cc.entered - e0, sut.cc.recovered - x0);
    match catch_unwind(AssertUnwindSafe(|| observe(sut, ent, exi, fr, &rtx))) {
        Ok(seen) => Answer::Ok(seen),
        Err(e) => Answer::Panic { whence: "obs", msg: panic_msg(e) },
    }
}

// ------------------------------------------------------------------------------------------ replay
fn replay(cases: &str, answers: &str, shard: usize, nshards: usize) {
    let mut parent: Vec<i64> = vec![];
    let mut ops: Vec<Value> = vec![];
    let f = std::io::BufReader::new(std::fs::File::open(cases).expect("open cases"));
    for l in f.lines() {
        let l = l.unwrap();
        if l.trim().is_empty() {
            continue;
        }
        let v: Value = serde_json::from_str(&l).expect("case json");
        let p = int(&v[0]);
        assert!(p < parent.len() as i64, "parent must precede");
        parent.push(p);
        ops.push(v[1].clone());
    }
    let base = Instant::now();
    let mut out = Out::create(answers);
    let mut chain: Vec<usize> = vec![];
    for i in (shard..ops.len()).step_by(nshards) {
        chain.clear();
        let mut at = i as i64;
        while at >= 0 {
            chain.push(at as usize);
            at = parent[at as usize];
        }
        chain.reverse();
        let first = &ops[chain[0]];
        assert!(first[0] == "n", "a chain starts with n");
        let (mut sut, mut ans) = fresh(first, base);
        let mut at_call = 0;
        for (j, &c) in chain.iter().enumerate().skip(1) {
            if let Answer::Panic { .. } = ans {
                break;
            }
            at_call = j;
            ans = step(&mut sut, &ops[c]);
        }
        match ans {
            Answer::Ok(s) => out.line(json!([s.ans, s.rtx, s.obs, s.aux])),
            Answer::Panic { whence, msg } => out.line(json!({"panic": whence, "at": at_call, "msg": msg})),
        }
    }
    let n = out.finish();
    println!("cases={n}");
}

// ------------------------------------------------------------------------------------------ record format
struct Carry {
    ans: Value,
    obs: Value,
    aux: Value,
    dbg: Value,
}

fn carry0() -> Carry {
    Carry { ans: json!([0, -1, 0, 0, -1]), obs: json!([0, 0, 0, 0, []]), aux: json!([0, 0]), dbg: json!([-1, -1, -1, -1, -1]) }
}

/// Writes the line of one call; returns whether the run goes on.
fn write_line(out: &mut Out, op: &Value, ans: Answer, c: &mut Carry) -> bool {
    match ans {
        Answer::Ok(s) => {
            out.line(json!({"op": op, "ans": s.ans, "rtx": s.rtx, "obs": s.obs, "aux": s.aux, "dbg": s.dbg, "panic": "", "msg": ""}));
            *c = Carry { ans: s.ans, obs: s.obs, aux: s.aux, dbg: s.dbg };
            true
        }
        Answer::Panic { whence, msg } => {
            out.line(json!({"op": op, "ans": c.ans, "rtx": [], "obs": c.obs, "aux": c.aux, "dbg": c.dbg, "panic": whence, "msg": msg}));
            false
        }
    }
}

fn script(input: &str, output: &str) {
    let base = Instant::now();
    let mut out = Out::create(output);
    let f = std::io::BufReader::new(std::fs::File::open(input).expect("open scripts"));
    for l in f.lines() {
        let l = l.unwrap();
        if l.trim().is_empty() {
            continue;
        }
        let v: Value = serde_json::from_str(&l).expect("script json");
        let ops = v["ops"].as_array().expect("ops");
        assert!(!ops.is_empty() && ops[0][0] == "n", "a script starts with n");
        let (mut sut, ans) = fresh(&ops[0], base);
        let mut c = carry0();
        let mut alive = write_line(&mut out, &ops[0], ans, &mut c);
        for op in &ops[1..] {
            if !alive {
                break;
            }
            let ans = step(&mut sut, op);
            alive = write_line(&mut out, op, ans, &mut c);
        }
    }
    let n = out.finish();
    println!("lines={n}");
}

// ------------------------------------------------------------------------------------------ record
const UNA0: [i64; 12] = [0, 1, 3, 100, 32766, 32767, 32768, 65529, 65532, 65533, 65534, 65535];
const WNDS: [i64; 5] = [0, 1000, 50_000, 100_000, 1_000_000];

/// signed distance a - b in sequence space
fn dist(a: i64, b: i64) -> i64 {
    let d = (a - b).rem_euclid(65536);
    if d >= 32768 { d - 65536 } else { d }
}

fn pick_sack(r: &mut Rng, una: i64, nq: i64, ack: i64) -> Vec<u8> {
    let len = match r.below(20) {
        0 => 0usize,
        1..=7 => 1,
        8 => 2,
        9..=12 => 4,
        13..=18 => 8,
        _ => 12,
    };
    let mut bytes = vec![0u8; len];
    let nbits = len * 8;
    if nbits == 0 {
        return bytes;
    }
    match r.below(8) {
        // the bits that refer to some of the queued sequence numbers above the first one
        0..=3 => {
            let dense = r.below(3) as i64;
            for j in 1..nq {
                let i = dist(una + j, ack + 2);
                if i >= 0 && (i as usize) < nbits && r.below(3) as i64 <= dense {
                    bytes[i as usize / 8] |= 1 << (i % 8);
                }
            }
        }
        // exactly k low bits
        4 => {
            let k = 1 + r.below(4) as usize;
            for i in 0..k.min(nbits) {
                bytes[i / 8] |= 1 << (i % 8);
            }
        }
        // sparse anywhere
        5 => {
            for _ in 0..1 + r.below(3) {
                let i = r.below(nbits as u64) as usize;
                bytes[i / 8] |= 1 << (i % 8);
            }
        }
        // dense
        6 => {
            for b in bytes.iter_mut() {
                *b = r.next() as u8;
            }
        }
        // nothing set
        _ => {}
    }
    bytes
}

fn record(seed: u64, n: usize, path: &str) {
    let mut r = Rng(seed.wrapping_mul(0x2545_F491_4F6C_DD1D) ^ 0x7EC0);
    let base = Instant::now();
    let mut out = Out::create(path);
    while out.lines < n {
        let una0 = if r.below(5) == 0 { r.below(65536) as i64 } else { r.pick(&UNA0) };
        // three runs in four keep the dispatcher's discipline (nothing is sent in RTO mode, the timer fires only
        // while transmitted data is outstanding)
        let disc = r.below(4) != 0;
        let (cap, run_len) = match r.below(10) {
            0..=5 => (7i64, 40 + r.below(200)),
            6..=8 => (20, 40 + r.below(160)),
            _ => (70, 30 + r.below(100)),
        };
        // the peer's habit: never / always / sometimes sends selective ACKs
        let sack_habit = r.below(3);
        let nq0 = r.below(cap as u64 + 1) as i64;
        let ns0 = r.below(nq0 as u64 + 1) as i64;
        let op0 = json!(["n", una0, nq0, ns0]);
        let (mut sut, ans) = fresh(&op0, base);
        let mut c = carry0();
        let mut alive = write_line(&mut out, &op0, ans, &mut c);
        // the environment's own memory
        let mut high = (una0 + ns0 - 1).rem_euclid(65536);
        let mut wnd: i64 = 100_000;
        let mut prev_ack: Option<Value> = None;
        let mut calls = 0;
        while alive && calls < run_len {
            let una = int(&c.obs[0]);
            let nq = int(&c.obs[1]);
            let last = int(&c.obs[2]);
            let blocked = int(&c.obs[3]) != 0;
            let recovering = int(&c.ans[0]) != 0;
            let point = int(&c.ans[1]);
            let flight = dist(last, una) + 1; // transmitted, unacknowledged (by last_sent)
            let outstanding = nq > 0 && flight > 0;
            let may_send = (!disc || !blocked) && (nq < cap || dist(una + nq - 1, last) > 0);
            let may_rto = if disc { outstanding } else { nq > 0 };
            let op = match r.below(100) {
                0..=13 if may_send => json!(["d"]),
                14..=17 if nq < cap => json!(["q"]),
                18..=23 if may_rto => json!(["t"]),
                24..=37 if recovering => json!(["x"]),
                _ => {
                    // repeat the previous packet exactly (duplicates come in runs)
                    let rep = match &prev_ack {
                        Some(p) if r.below(100) < 45 && dist(int(&p[1]), high) <= 0 => Some(p.clone()),
                        _ => None,
                    };
                    if let Some(p) = rep {
                        p
                    } else {
                        let top = dist(high, una); // highest transmitted, relative to una (>= -1)
                        let rel = match r.below(100) {
                            0..=39 => -1,
                            40..=47 => -2 - r.below(5) as i64,
                            48..=49 => -1000,
                            50..=51 => -32000 + r.below(100) as i64,
                            52..=71 => r.below(top.max(0) as u64 + 1) as i64,
                            72..=84 => top,
                            85..=92 if point >= 0 => dist(point, una) - r.below(2) as i64,
                            _ => flight - 1,
                        };
                        let rel = rel.min(top);
                        let ack = (una + rel).rem_euclid(65536);
                        if r.below(10) == 0 {
                            wnd = r.pick(&WNDS);
                        }
                        let ty = match r.below(40) {
                            0..=2 => 0,
                            3 => 1,
                            _ => 2,
                        };
                        let with_sack = match sack_habit {
                            0 => false,
                            1 => r.below(10) != 0,
                            _ => r.below(2) == 0,
                        };
                        if with_sack {
                            json!(["a", ack, 1, pick_sack(&mut r, una, nq, ack), ty, wnd])
                        } else {
                            json!(["a", ack, 0, [], ty, wnd])
                        }
                    }
                }
            };
            if op[0] == "a" {
                prev_ack = Some(op.clone());
            }
            let ans = step(&mut sut, &op);
            alive = write_line(&mut out, &op, ans, &mut c);
            if alive {
                let l = int(&c.obs[2]);
                if dist(l, high) > 0 {
                    high = l;
                }
            }
            calls += 1;
        }
    }
    let n = out.finish();
    println!("lines={n}");
}

fn main() {
    std::panic::set_hook(Box::new(|_| {}));
    let a: Vec<String> = std::env::args().collect();
    match a.get(1).map(|s| s.as_str()) {
        Some("replay") if a.len() == 4 => replay(&a[2], &a[3], 0, 1),
        Some("replay") if a.len() == 6 => replay(&a[2], &a[3], a[4].parse().expect("shard"), a[5].parse().expect("nshards")),
        Some("script") if a.len() == 4 => script(&a[2], &a[3]),
        Some("record") if a.len() == 5 => record(a[2].parse().expect("seed"), a[3].parse().expect("n"), &a[4]),
        _ => {
            eprintln!(
                "usage: unit_recov replay <cases.ndjson> <answers.ndjson> [k n] | script <scripts.ndjson> <out.ndjson> | record <seed> <n> <out.ndjson>"
            );
            std::process::exit(2);
        }
    }
}
