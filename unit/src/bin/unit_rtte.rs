//! C16 driver: `librqbit_utp::verif_api::RttEstimator` (src/rtte.rs) driven directly.
//!
//!   unit_rtte replay <cases.ndjson> <answers.ndjson>
//!       Each input line is one case emitted by TLC from MCRtte.tla: a JSON array of entries
//!       `[op, arg_ms, arg_ns, rto_ms, rto_ns, srtt_ms, srtt_ns]` (the last four are the
//!       specification's expectation and are NOT used here, except that an srtt of -1 means "not
//!       specified" and is echoed as such).  op: 0 fresh estimator (`default()`), 1 `sample(arg)`,
//!       2 `on_rto_timeout()`, 3 continue from the estimator stored under number arg_ms, 4 store the
//!       estimator under number arg_ms.  The output line has the same shape with the columns 4..7
//!       replaced by what the implementation answered after the call (`retransmission_timeout()`,
//!       `roundtrip_time()`), or `{"panic": step, "msg": ..}`.
//!
//!   unit_rtte record <seed> <n> <out.ndjson> [len]
//!       n seeded random call sequences of `len` (default 300) calls; one line per call:
//!       `{"op":"reset|sample|timeout|panic","a":[ms,ns],"rto":[ms,ns],"rtt":[ms,ns],"seq":i,"mode":m}`.
//!
//! Durations are written as two limbs [whole milliseconds, nanoseconds 0..999999] because TLC's
//! integers are 32-bit; values above 2^28 - 1 ms (74 h) saturate.

use librqbit_utp::verif_api::RttEstimator;
use serde_json::{Value, json};
use std::collections::HashMap;
use std::io::BufRead;
use std::panic::{AssertUnwindSafe, catch_unwind};
use std::time::Duration;
use utp_verif_unit::{Out, Rng};

const SAT_MS: u128 = (1 << 28) - 1;

fn limbs(d: Duration) -> (i64, i64) {
    let n = d.as_nanos();
    let ms = n / 1_000_000;
    if ms > SAT_MS {
        (SAT_MS as i64, 999_999)
    } else {
        (ms as i64, (n % 1_000_000) as i64)
    }
}

fn dur(ms: i64, ns: i64) -> Duration {
    Duration::from_nanos(ms as u64 * 1_000_000 + ns as u64)
}

fn panic_msg(e: Box<dyn std::any::Any + Send>) -> String {
    if let Some(s) = e.downcast_ref::<&str>() {
        s.to_string()
    } else if let Some(s) = e.downcast_ref::<String>() {
        s.clone()
    } else {
        "panic".to_string()
    }
}

/// One call on the real estimator; Err(message) if the code under test panicked.
fn call(e: &mut RttEstimator, op: i64, arg: Duration) -> Result<(Duration, Duration), String> {
    let mut c = *e;
    let r = catch_unwind(AssertUnwindSafe(|| {
        match op {
            1 => c.sample(arg),
            2 => c.on_rto_timeout(),
            _ => {}
        }
        (c.retransmission_timeout(), c.roundtrip_time())
    }));
    match r {
        Ok(v) => {
            *e = c;
            Ok(v)
        }
        Err(p) => Err(panic_msg(p)),
    }
}

fn replay(cases: &str, answers: &str) {
    let f = std::io::BufReader::new(std::fs::File::open(cases).expect("open cases"));
    let mut out = Out::create(answers);
    let mut stored: HashMap<i64, RttEstimator> = HashMap::new();
    for line in f.lines() {
        let line = line.unwrap();
        if line.trim().is_empty() {
            continue;
        }
        let case: Vec<Vec<i64>> = serde_json::from_str(&line).expect("case line");
        let mut e = RttEstimator::default();
        let mut ans: Vec<Vec<i64>> = Vec::with_capacity(case.len());
        let mut failed: Option<Value> = None;
        for (i, c) in case.iter().enumerate() {
            let (op, ams, ans_) = (c[0], c[1], c[2]);
            let res = match op {
                0 => {
                    e = RttEstimator::default();
                    call(&mut e, 0, Duration::ZERO)
                }
                1 => call(&mut e, 1, dur(ams, ans_)),
                2 => call(&mut e, 2, Duration::ZERO),
                3 => match stored.get(&ams) {
                    Some(s) => {
                        e = *s;
                        call(&mut e, 0, Duration::ZERO)
                    }
                    None => Err(format!("no stored estimator {ams}")),
                },
                4 => {
                    stored.insert(ams, e);
                    call(&mut e, 0, Duration::ZERO)
                }
                _ => Err(format!("unknown op {op}")),
            };
            match res {
                Ok((rto, rtt)) => {
                    let (a, b) = limbs(rto);
                    let (x, y) = if c[5] == -1 { (-1, 0) } else { limbs(rtt) };
                    ans.push(vec![op, ams, ans_, a, b, x, y]);
                }
                Err(msg) => {
                    failed = Some(json!({"panic": i, "msg": msg}));
                    break;
                }
            }
        }
        out.line(failed.unwrap_or_else(|| json!(ans)));
    }
    let n = out.finish();
    println!("cases={n}");
}

// ------------------------------------------------------------------------------------------------
const MS: u64 = 1_000_000;
const S: u64 = 1_000_000_000;
/// The boundary values of the bounded model and their neighbours (nanoseconds).
const BOUNDARY: &[u64] = &[
    0,
    1,
    2,
    7,
    8,
    999,
    1_000,
    1_001,
    10 * MS - 1,
    10 * MS,
    10 * MS + 1,
    190 * MS,
    200 * MS - 1,
    200 * MS,
    200 * MS + 1,
    S,
    59_900 * MS,
    59_990 * MS,
    60 * S - 1,
    60 * S,
    60 * S + 1,
    61 * S,
    3_600 * S,
    10_800 * S,
    14_400 * S,
];
const MAX_NS: u64 = 14_400 * S; // 4 h

fn random_value(rng: &mut Rng) -> u64 {
    match rng.below(4) {
        // log-uniform, nanosecond-granular
        0 | 1 => {
            let e = rng.below(14) as u32; // up to 10^13 ns = 2.8 h
            rng.below(10u64.pow(e) + 1).min(MAX_NS)
        }
        // millisecond-granular up to 70 s
        2 => rng.below(70_000) * MS,
        // anything up to 4 h
        _ => rng.below(MAX_NS + 1),
    }
}

fn any_value(rng: &mut Rng) -> u64 {
    if rng.below(100) < 55 {
        rng.pick(BOUNDARY)
    } else {
        random_value(rng)
    }
}

fn jittered(rng: &mut Rng, base: u64, amp: u64) -> u64 {
    if amp == 0 {
        return base;
    }
    let j = rng.below(2 * amp + 1);
    (base + j).saturating_sub(amp).min(MAX_NS)
}

/// Returns None for "timeout", Some(ns) for "sample".  `i` is the index of the call in its sequence.
fn next_call(rng: &mut Rng, mode: u64, base: u64, amp: u64, i: u64, lead: u64) -> Option<u64> {
    let p = rng.below(100);
    match mode {
        // mix
        0 => {
            if p < 20 {
                None
            } else {
                Some(any_value(rng))
            }
        }
        // steady around `base`: lets the variance decay below a quarter of the clock granularity
        // (no outlier during the first 60 calls, so that the regime is reached in every sequence)
        1 | 4 => {
            if p < 6 {
                None
            } else if p < 8 && i >= 60 {
                Some(any_value(rng))
            } else {
                Some(jittered(rng, base, amp))
            }
        }
        // timeout-heavy: starts with `lead` timeouts on the fresh estimator, reaches the cap, and a
        // sample brings the timeout back
        2 => {
            if i < lead || p < 55 {
                None
            } else {
                Some(any_value(rng))
            }
        }
        // small, nanosecond-granular values with rare spikes
        _ => {
            if p < 10 {
                None
            } else if p < 15 {
                Some(any_value(rng))
            } else {
                Some(rng.below(20 * MS + 1))
            }
        }
    }
}

fn record(seed: u64, n: u64, path: &str, len: u64) {
    let mut out = Out::create(path);
    let mut rng = Rng(seed.wrapping_mul(0x9E37_79B9).wrapping_add(0xC16));
    let line = |op: &str, a: u64, rto: Duration, rtt: Duration, seq: u64, mode: u64| -> Value {
        let (am, an) = limbs(Duration::from_nanos(a));
        let (rm, rn) = limbs(rto);
        let (tm, tn) = limbs(rtt);
        json!({"op": op, "a": [am, an], "rto": [rm, rn], "rtt": [tm, tn], "seq": seq, "mode": mode})
    };
    for seq in 0..n {
        let mode = seq % 5;
        let base = match mode {
            1 => 195 * MS + rng.below(59_785 * MS), // 195 ms .. 59.98 s: srtt + 10 ms inside the bounds
            4 => 59_900 * MS + rng.below(200 * MS), // around the cap
            _ => 0,
        };
        let lead = 1 + rng.below(12);
        let amp = rng.pick(&[0u64, 1, 1_000, 100_000, 2 * MS]);
        let mut e = RttEstimator::default();
        match call(&mut e, 0, Duration::ZERO) {
            Ok((rto, rtt)) => out.line(line("reset", 0, rto, rtt, seq, mode)),
            Err(msg) => {
                out.line(line("reset", 0, Duration::ZERO, Duration::ZERO, seq, mode));
                out.line(json!({"op": "panic", "in": "default", "msg": msg, "a": [0, 0], "rto": [0, 0], "rtt": [0, 0], "seq": seq, "mode": mode}));
                continue;
            }
        }
        for i in 0..len {
            let c = next_call(&mut rng, mode, base, amp, i, lead);
            let (op, name, a) = match c {
                None => (2, "timeout", 0),
                Some(v) => (1, "sample", v),
            };
            match call(&mut e, op, Duration::from_nanos(a)) {
                Ok((rto, rtt)) => out.line(line(name, a, rto, rtt, seq, mode)),
                Err(msg) => {
                    let (am, an) = limbs(Duration::from_nanos(a));
                    out.line(json!({"op": "panic", "in": name, "msg": msg, "a": [am, an], "rto": [0, 0], "rtt": [0, 0], "seq": seq, "mode": mode}));
                    break; // the estimator's state is unknown after a panic: next sequence
                }
            }
        }
    }
    let lines = out.finish();
    println!("lines={lines}");
}

fn main() {
    std::panic::set_hook(Box::new(|_| {})); // panics of the code under test are data, not noise
    let a: Vec<String> = std::env::args().collect();
    match a.get(1).map(|s| s.as_str()) {
        Some("replay") if a.len() == 4 => replay(&a[2], &a[3]),
        Some("record") if a.len() >= 5 => record(
            a[2].parse().expect("seed"),
            a[3].parse().expect("n"),
            &a[4],
            a.get(5).map(|s| s.parse().expect("len")).unwrap_or(300),
        ),
        _ => {
            eprintln!("usage: unit_rtte replay <cases.ndjson> <answers.ndjson> | record <seed> <n> <out.ndjson> [len]");
            std::process::exit(2);
        }
    }
}
