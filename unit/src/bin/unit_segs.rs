//! Driver for the sender's segment queue `Segments` (src/stream_tx_segments.rs), serving C01 / C06 / C14.
//!
//!   unit_segs replay <cases.ndjson> <answers.ndjson> [k n]
//!       A case line is `[p, op]`: the calls of case number p (0-based line number, must precede; -1: none)
//!       followed by the call `op`.  The first call of every chain is `["n", snd_una]` (a fresh `Segments`).
//!       Every case is executed from scratch on a fresh object (`Segments` is not `Clone`); the answer line
//!       is `[ret, obs, next]` for the LAST call of the chain (compact JSON, integers only; next = [seq_nr,
//!       payload_offset of the segment one more enqueue(1, false) creates, total_len_bytes after it]), or
//!       `{"panic": "op" | "obs", "at": index of the call in the chain, "msg": ..}`.  With `k n` only the cases
//!       number k, k + n, k + 2n, .. are answered (n processes share one case file).
//!   unit_segs script <scripts.ndjson> <out.ndjson>
//!       A script line is `{"una": u, "disc": 0|1, "ops": [op, ..]}`; it is executed on a fresh object and
//!       written in the record format below (one `n` line, then one line per call).
//!   unit_segs record <seed> <n> <out.ndjson>
//!       About n lines of seeded random call sequences (runs of 20..300 calls, each started by an `n` line):
//!       three runs in four keep the dispatcher's discipline (nothing is enqueued behind an outstanding
//!       probe; "disc": 1), one does not (robustness).
//!
//! A call `op` (the tuples of spec/Segments.tla):
//!   ["n", snd_una]               Segments::new
//!   ["e", len, probe]            enqueue(len, probe != 0)
//!   ["s", start, mask]           iter_mut_for_sending(start) (-1: None); on_sent(now) on the yielded items whose
//!                                0-based position is a set bit of mask (positions >= 30 never)
//!   ["a", ack_nr, has, bytes]    remove_up_to_ack(now, header{ack_nr, selective_ack}); has = 0: no extension;
//!                                has = 1: `SelectiveAck::new(set bit indexes)` if there are exactly 8 bytes,
//!                                `SelectiveAck::deserialize(bytes)` otherwise (any length, also 0 and > 8)
//!   ["p", seq]                   pop_mtu_probe(seq)
//!   ["x", timed_out, max_retx]   pop_expired_mtu_probe(timed_out != 0, max_retx)
//!   ["c", high_rxt, high_data, rtt_ms]   calc_pipe(high_rxt, high_data, rtt, now)  (marks only)
//! The clock advances 10 ms before every call.
//!
//! A record line: {"op": op, "disc": 0|1, "ret": ret, "obs": obs, "panic": "" | "op" | "obs", "msg": ..}
//!   ret   e: [1 if enqueued]   s: [number of on_sent calls]   p: [0 | 1]   c, n: []
//!         a: [acked_segments_count, acked_bytes, newly_sacked_segment_count, newly_sacked_byte_count,
//!             max_acked_payload_size]
//!         x: [0] Empty, [1] NotExpired, [2, rewind_to, payload_size] Expired
//!   obs   [total_len_bytes, total_len_packets, first_seq_nr (-1: None), is_empty, snd_una,
//!          [calc_flight_size(snd_una + k) for k = -2 .. packets + 1],
//!          [iter_mut_for_sending(x) for x = None, snd_una - 2, snd_una + 1, snd_una + packets - 1,
//!           snd_una + packets]]
//!         an iteration is the list of [seq_nr, payload_offset, payload_size, send_count, is_mtu_probe,
//!         is_delivered] of the yielded items.
//! A panic in the code under test is data: "panic" says whether the call itself ("op") or reading the
//! observables after it ("obs") panicked; ret / obs are then the previous ones / empty, and the run ends.

use std::io::BufRead;
use std::panic::{AssertUnwindSafe, catch_unwind};
use std::time::{Duration, Instant};

use librqbit_utp::raw::{Extensions, UtpHeader, selective_ack::SelectiveAck};
use librqbit_utp::verif_api::{PopExpiredProbe, Segments, SeqNr};
use serde_json::{Value, json};
use utp_verif_unit::{Out, Rng};

fn panic_msg(e: Box<dyn std::any::Any + Send>) -> String {
    if let Some(s) = e.downcast_ref::<&str>() {
        s.to_string()
    } else if let Some(s) = e.downcast_ref::<String>() {
        s.clone()
    } else {
        "panic".to_string()
    }
}

fn seq(v: i64) -> SeqNr {
    SeqNr(v.rem_euclid(65536) as u16)
}

fn int(v: &Value) -> i64 {
    v.as_i64().unwrap_or_else(|| panic!("integer expected: {v}"))
}

struct Sut {
    s: Segments,
    now: Instant,
}

type Items = Vec<[i64; 6]>;

fn iter_items(s: &mut Segments, start: Option<SeqNr>) -> Items {
    s.iter_mut_for_sending(start)
        .map(|it| {
            [
                it.seq_nr().0 as i64,
                it.payload_offset() as i64,
                it.payload_size() as i64,
                it.send_count() as i64,
                it.is_mtu_probe() as i64,
                it.is_delivered() as i64,
            ]
        })
        .collect()
}

fn observe(s: &mut Segments) -> Value {
    let una = s.snd_una();
    let n = s.total_len_packets();
    let first = match s.first_seq_nr() {
        Some(f) => f.0 as i64,
        None => -1,
    };
    let flights: Vec<i64> = (0..n + 4)
        .map(|k| s.calc_flight_size(seq(una.0 as i64 + k as i64 - 2)) as i64)
        .collect();
    let starts = [
        None,
        Some(seq(una.0 as i64 - 2)),
        Some(seq(una.0 as i64 + 1)),
        Some(seq(una.0 as i64 + n as i64 - 1)),
        Some(seq(una.0 as i64 + n as i64)),
    ];
    let iters: Vec<Items> = starts.iter().map(|st| iter_items(s, *st)).collect();
    json!([
        s.total_len_bytes() as i64,
        n as i64,
        first,
        s.is_empty() as i64,
        una.0 as i64,
        flights,
        iters
    ])
}

fn sack_of(bytes: &[u8]) -> SelectiveAck {
    if bytes.len() == 8 {
        let bits: Vec<usize> = (0..64).filter(|i| bytes[i / 8] >> (i % 8) & 1 == 1).collect();
        SelectiveAck::new(bits.into_iter())
    } else {
        SelectiveAck::deserialize(bytes)
    }
}

/// One call on the real object.  Returns `ret`.
fn call(sut: &mut Sut, op: &Value) -> Value {
    let a = op.as_array().expect("op is an array");
    let k = a[0].as_str().expect("op name");
    sut.now += Duration::from_millis(10);
    let now = sut.now;
    match k {
        "e" => {
            let r = sut.s.enqueue(int(&a[1]) as usize, int(&a[2]) != 0);
            json!([r as i64])
        }
        "s" => {
            let start = int(&a[1]);
            let mask = int(&a[2]);
            let start = if start < 0 { None } else { Some(seq(start)) };
            let mut cnt = 0;
            for (i, mut it) in sut.s.iter_mut_for_sending(start).enumerate() {
                if i < 30 && (mask >> i) & 1 == 1 {
                    it.on_sent(now);
                    cnt += 1;
                }
            }
            json!([cnt])
        }
        "a" => {
            let has = int(&a[2]) != 0;
            let bytes: Vec<u8> = a[3].as_array().expect("sack bytes").iter().map(|b| int(b) as u8).collect();
            let header = UtpHeader {
                ack_nr: seq(int(&a[1])),
                extensions: Extensions {
                    selective_ack: if has { Some(sack_of(&bytes)) } else { None },
                    ..Default::default()
                },
                ..Default::default()
            };
            let r = sut.s.remove_up_to_ack(now, &header);
            json!([
                r.acked_segments_count as i64,
                r.acked_bytes as i64,
                r.newly_sacked_segment_count as i64,
                r.newly_sacked_byte_count as i64,
                r.max_acked_payload_size as i64
            ])
        }
        "p" => {
            let r = sut.s.pop_mtu_probe(seq(int(&a[1])));
            json!([r as i64])
        }
        "x" => match sut.s.pop_expired_mtu_probe(int(&a[1]) != 0, int(&a[2]) as usize) {
            PopExpiredProbe::Empty => json!([0]),
            PopExpiredProbe::NotExpired => json!([1]),
            PopExpiredProbe::Expired { rewind_to, payload_size } => json!([2, rewind_to.0 as i64, payload_size as i64]),
        },
        "c" => {
            let _ = sut.s.calc_pipe(
                seq(int(&a[1])),
                seq(int(&a[2])),
                Duration::from_millis(int(&a[3]) as u64),
                now,
            );
            json!([])
        }
        _ => panic!("unknown op {op}"),
    }
}

enum Answer {
    Ok { ret: Value, obs: Value },
    Panic { whence: &'static str, msg: String },
}

fn fresh(una: i64, base: Instant) -> (Sut, Answer) {
    let r = catch_unwind(AssertUnwindSafe(|| {
        let mut sut = Sut { s: Segments::new(seq(una)), now: base };
        let obs = observe(&mut sut.s);
        (sut, obs)
    }));
    match r {
        Ok((sut, obs)) => (sut, Answer::Ok { ret: json!([]), obs }),
        Err(e) => (
            Sut { s: Segments::new(seq(una)), now: base },
            Answer::Panic { whence: "op", msg: panic_msg(e) },
        ),
    }
}

fn step(sut: &mut Sut, op: &Value) -> Answer {
    let ret = match catch_unwind(AssertUnwindSafe(|| call(sut, op))) {
        Ok(r) => r,
        Err(e) => return Answer::Panic { whence: "op", msg: panic_msg(e) },
    };
    match catch_unwind(AssertUnwindSafe(|| observe(&mut sut.s))) {
        Ok(obs) => Answer::Ok { ret, obs },
        Err(e) => Answer::Panic { whence: "obs", msg: panic_msg(e) },
    }
}

// ------------------------------------------------------------------------------------------ replay
fn replay(cases: &str, answers: &str, shard: usize, nshards: usize) {
    let mut parent: Vec<i64> = vec![];
    let mut ops: Vec<Value> = vec![];
    let f = std::io::BufReader::new(std::fs::File::open(cases).expect("open cases"));
    for l in f.lines() {
        let l = l.unwrap();
        if l.trim().is_empty() {
            continue;
        }
        let v: Value = serde_json::from_str(&l).expect("case json");
        let p = int(&v[0]);
        assert!(p < parent.len() as i64, "parent must precede");
        parent.push(p);
        ops.push(v[1].clone());
    }
    let base = Instant::now();
    let mut out = Out::create(answers);
    let mut chain: Vec<usize> = vec![];
    for i in (shard..ops.len()).step_by(nshards) {
        chain.clear();
        let mut at = i as i64;
        while at >= 0 {
            chain.push(at as usize);
            at = parent[at as usize];
        }
        chain.reverse();
        let first = &ops[chain[0]];
        assert!(first[0] == "n", "a chain starts with n");
        let (mut sut, mut ans) = fresh(int(&first[1]), base);
        let mut at_call = 0;
        for (j, &c) in chain.iter().enumerate().skip(1) {
            if let Answer::Panic { .. } = ans {
                break;
            }
            at_call = j;
            ans = step(&mut sut, &ops[c]);
        }
        match ans {
            Answer::Ok { ret, obs } => {
                // the object is thrown away after the case: one more enqueue shows where the next segment
                // would start (the hidden `offset`)
                let nxt = catch_unwind(AssertUnwindSafe(|| {
                    let _ = sut.s.enqueue(1, false);
                    let last = iter_items(&mut sut.s, None).last().copied();
                    let last = last.unwrap_or([-1; 6]);
                    json!([last[0], last[1], sut.s.total_len_bytes() as i64])
                }));
                match nxt {
                    Ok(nxt) => out.line(json!([ret, obs, nxt])),
                    Err(e) => out.line(json!({"panic": "obs", "at": at_call, "msg": panic_msg(e)})),
                }
            }
            Answer::Panic { whence, msg } => out.line(json!({"panic": whence, "at": at_call, "msg": msg})),
        }
    }
    let n = out.finish();
    println!("cases={n}");
}

// ------------------------------------------------------------------------------------------ record format
fn empty_obs() -> Value {
    json!([0, 0, -1, 1, 0, [0, 0, 0, 0], [[], [], [], [], []]])
}

/// Writes the line of one call; returns the observation to carry on and whether the run goes on.
fn write_line(out: &mut Out, op: &Value, disc: bool, ans: Answer, prev_obs: &Value) -> (Value, bool) {
    match ans {
        Answer::Ok { ret, obs } => {
            out.line(json!({"op": op, "disc": disc as i64, "ret": ret, "obs": obs, "panic": ""}));
            (obs, true)
        }
        Answer::Panic { whence, msg } => {
            out.line(json!({"op": op, "disc": disc as i64, "ret": [], "obs": prev_obs, "panic": whence, "msg": msg}));
            (prev_obs.clone(), false)
        }
    }
}

fn script(input: &str, output: &str) {
    let base = Instant::now();
    let mut out = Out::create(output);
    let f = std::io::BufReader::new(std::fs::File::open(input).expect("open scripts"));
    for l in f.lines() {
        let l = l.unwrap();
        if l.trim().is_empty() {
            continue;
        }
        let v: Value = serde_json::from_str(&l).expect("script json");
        let una = int(&v["una"]);
        let disc = v.get("disc").map(|d| int(d) != 0).unwrap_or(true);
        let (mut sut, ans) = fresh(una, base);
        let (mut obs, mut alive) = write_line(&mut out, &json!(["n", una]), disc, ans, &empty_obs());
        for op in v["ops"].as_array().expect("ops") {
            if !alive {
                break;
            }
            let ans = step(&mut sut, op);
            (obs, alive) = write_line(&mut out, op, disc, ans, &obs);
        }
    }
    let n = out.finish();
    println!("lines={n}");
}

// ------------------------------------------------------------------------------------------ record
const UNA0: [i64; 10] = [0, 1, 3, 100, 32766, 32767, 32768, 65533, 65534, 65535];
const LENS: [i64; 10] = [1, 1, 2, 3, 5, 100, 528, 1000, 1452, 3000];

struct View {
    una: i64,
    n: i64,
    /// the newest segment is an outstanding (undelivered) probe
    probe_out: bool,
    /// number of items iter(None) yields
    yielded: i64,
    /// the yielded sequence numbers
    seqs: Vec<i64>,
}

fn view(obs: &Value) -> View {
    let una = int(&obs[4]);
    let n = int(&obs[1]);
    let y = obs[6][0].as_array().unwrap();
    let last_seq = (una + n - 1).rem_euclid(65536);
    let probe_out = y.last().map(|it| int(&it[4]) == 1 && int(&it[0]) == last_seq).unwrap_or(false);
    View { una, n, probe_out, yielded: y.len() as i64, seqs: y.iter().map(|it| int(&it[0])).collect() }
}

/// Any sequence number, except the one exactly half the sequence space away from snd_una: its order relative
/// to snd_una is ambiguous in 16-bit arithmetic (C09) and the queue is never asked about it.
fn any_seq(r: &mut Rng, una: i64) -> i64 {
    let s = r.below(65536) as i64;
    if (s - una).rem_euclid(65536) == 32768 { (s + 1).rem_euclid(65536) } else { s }
}

fn pick_sack(r: &mut Rng, v: &View, ack: i64) -> Value {
    let len = match r.below(12) {
        0 => 0usize,
        1..=3 => 1,
        4 => 2,
        5..=6 => 4,
        7..=10 => 8,
        _ => 12,
    };
    let mut bytes = vec![0u8; len];
    let nbits = len * 8;
    if nbits > 0 {
        match r.below(6) {
            // the bits that refer to some of the queued sequence numbers
            0..=2 => {
                for &s in &v.seqs {
                    let i = (s - ack - 2).rem_euclid(65536);
                    if (i as usize) < nbits && r.below(3) == 0 {
                        bytes[i as usize / 8] |= 1 << (i % 8);
                    }
                }
            }
            // sparse
            3 => {
                for _ in 0..1 + r.below(3) {
                    let i = r.below(nbits as u64) as usize;
                    bytes[i / 8] |= 1 << (i % 8);
                }
            }
            // dense
            4 => {
                for b in bytes.iter_mut() {
                    *b = r.next() as u8;
                }
            }
            // nothing set
            _ => {}
        }
        if r.below(8) == 0 {
            let i = nbits - 1;
            bytes[i / 8] |= 1 << (i % 8);
        }
    }
    json!(bytes)
}

fn record(seed: u64, n: usize, path: &str) {
    let mut r = Rng(seed.wrapping_mul(0x2545_F491_4F6C_DD1D) ^ 0x5E65);
    let base = Instant::now();
    let mut out = Out::create(path);
    while out.lines < n {
        let una0 = if r.below(5) == 0 { r.below(65536) as i64 } else { r.pick(&UNA0) };
        let disc = r.below(4) != 0;
        // queue size the run aims at: small / medium / beyond the selective-ACK depth
        let (cap, run_len) = match r.below(10) {
            0..=5 => (6, 40 + r.below(260)),
            6..=8 => (20, 40 + r.below(160)),
            _ => (70, 20 + r.below(60)),
        };
        let small = r.below(2) == 0; // small payloads only (offsets easy to read)
        let (mut sut, ans) = fresh(una0, base);
        let (mut obs, mut alive) = write_line(&mut out, &json!(["n", una0]), disc, ans, &empty_obs());
        let mut last_sent = una0 - 1; // the dispatcher's last_sent_seq_nr
        let mut just_popped = false;
        let mut tail_probe = false; // the newest segment was enqueued as a probe (the environment's own memory)
        let mut calls = 0;
        while alive && calls < run_len {
            let v = view(&obs);
            let may_enqueue = !disc || !v.probe_out;
            let want_enq = (just_popped && r.below(4) != 0) || (v.n < cap && r.below(100) < if v.n < 3 { 45 } else { 22 });
            // the newest segment was acknowledged selectively (it is queued but not yielded)
            let last_seq = (v.una + v.n - 1).rem_euclid(65536);
            let tail_dlv = v.n > 0 && !v.seqs.contains(&last_seq);
            // probe life cycle: transmit the outstanding probe, acknowledge it selectively, try to pop it
            let special = if v.probe_out && r.below(100) < 40 {
                Some(match r.below(10) {
                    0..=3 => json!(["s", last_seq, 1]),
                    4..=5 if v.n >= 2 => {
                        let ack = (v.una - 1 - r.below(3) as i64).rem_euclid(65536);
                        let i = (last_seq - ack - 2).rem_euclid(65536) as usize;
                        let mut bytes = vec![0u8; 8];
                        if i < 64 {
                            bytes[i / 8] |= 1 << (i % 8);
                        }
                        json!(["a", ack, 1, bytes])
                    }
                    6..=7 => json!(["x", 1, r.below(3) as i64]),
                    8 => json!(["x", 0, 0]),
                    _ => json!(["p", last_seq]),
                })
            } else if tail_dlv && tail_probe && r.below(2) == 0 {
                Some(match r.below(3) {
                    0 => json!(["p", last_seq]),
                    1 => json!(["x", 1, 0]),
                    _ => json!(["x", 1, r.below(3) as i64]),
                })
            } else {
                None
            };
            let op = if let Some(op) = special {
                op
            } else if want_enq && may_enqueue {
                let len = if small { 1 + r.below(3) as i64 } else if r.below(8) == 0 { 1 + r.below(3000) as i64 } else { r.pick(&LENS) };
                let probe = r.below(if cap > 20 { 12 } else { 4 }) == 0;
                json!(["e", len, probe as i64])
            } else {
                match r.below(100) {
                    // transmit: as send_tx_queue (new data from last_sent + 1), as the RTO path (the first
                    // item from None), as recovery (some of the items from None), or any start
                    0..=29 => {
                        let start = match r.below(8) {
                            0..=2 => (last_sent + 1).rem_euclid(65536),
                            3 => -1,
                            4 => (v.una - 1 - r.below(3) as i64).rem_euclid(65536),
                            5 => (v.una + r.below(v.n as u64 + 2) as i64).rem_euclid(65536),
                            6 => (v.una + v.n - 1).rem_euclid(65536),
                            _ => any_seq(&mut r, v.una),
                        };
                        let m = v.yielded.clamp(1, 30) as u64;
                        let mask: i64 = match r.below(5) {
                            0 => 1,
                            1 => 1 << r.below(m),
                            2 => (1i64 << (1 + r.below(m))) - 1,
                            3 => (1i64 << m) - 1,
                            _ => (r.next() & ((1u64 << m) - 1)) as i64,
                        };
                        json!(["s", start, mask])
                    }
                    30..=64 => {
                        let ack = match r.below(20) {
                            0..=11 => v.una - 5 + r.below(v.n as u64 + 8) as i64,
                            12..=14 => v.una - 1,
                            15..=16 => v.una + r.below(v.n as u64 + 1) as i64,
                            17 => v.una + 1000,
                            18 => v.una - 1000,
                            _ => any_seq(&mut r, v.una),
                        }
                        .rem_euclid(65536);
                        if r.below(5) < 2 {
                            json!(["a", ack, 0, []])
                        } else {
                            json!(["a", ack, 1, pick_sack(&mut r, &v, ack)])
                        }
                    }
                    65..=76 => {
                        let last = v.una + v.n - 1;
                        let s = match r.below(8) {
                            0..=4 => last,
                            5 => last - 1,
                            6 => last + 1,
                            _ => any_seq(&mut r, v.una),
                        }
                        .rem_euclid(65536);
                        json!(["p", s])
                    }
                    77..=91 => json!(["x", (r.below(3) != 0) as i64, r.pick(&[0i64, 0, 1, 1, 2, 5])]),
                    _ => {
                        let hr = (v.una - 2 + r.below(v.n as u64 + 4) as i64).rem_euclid(65536);
                        // calc_pipe takes high_data = last_sent_seq_nr <= snd_una + packets (the FIN) from the dispatcher
                        let hd = (v.una - 2 + r.below(v.n as u64 + 3) as i64).rem_euclid(65536);
                        json!(["c", hr, hd, r.pick(&[0i64, 1, 10, 100, 1000])])
                    }
                }
            };
            let ans = step(&mut sut, &op);
            // the environment's own bookkeeping (never the component's)
            if let Answer::Ok { ret, obs: o } = &ans {
                match op[0].as_str().unwrap() {
                    "s" => {
                        if int(&ret[0]) > 0 {
                            // the newest sequence number that has been sent at least once
                            let sent: Vec<i64> = o[6][0]
                                .as_array()
                                .unwrap()
                                .iter()
                                .filter(|it| int(&it[3]) > 0)
                                .map(|it| int(&it[0]))
                                .collect();
                            if let Some(&s) = sent.last() {
                                last_sent = s;
                            }
                        }
                        just_popped = false;
                    }
                    "p" => {
                        just_popped = int(&ret[0]) == 1;
                        tail_probe &= !just_popped;
                    }
                    "x" => {
                        just_popped = ret.as_array().unwrap().len() == 3;
                        if just_popped {
                            last_sent = int(&ret[1]);
                            tail_probe = false;
                        }
                    }
                    "e" => {
                        just_popped = false;
                        tail_probe = int(&op[2]) != 0;
                    }
                    _ => {}
                }
            }
            (obs, alive) = write_line(&mut out, &op, disc, ans, &obs);
            calls += 1;
        }
    }
    let n = out.finish();
    println!("lines={n}");
}

fn main() {
    std::panic::set_hook(Box::new(|_| {}));
    let a: Vec<String> = std::env::args().collect();
    match a.get(1).map(|s| s.as_str()) {
        Some("replay") if a.len() == 4 => replay(&a[2], &a[3], 0, 1),
        Some("replay") if a.len() == 6 => replay(&a[2], &a[3], a[4].parse().expect("shard"), a[5].parse().expect("nshards")),
        Some("script") if a.len() == 4 => script(&a[2], &a[3]),
        Some("record") if a.len() == 5 => record(a[2].parse().expect("seed"), a[3].parse().expect("n"), &a[4]),
        _ => {
            eprintln!(
                "usage: unit_segs replay <cases.ndjson> <answers.ndjson> [k n] | script <scripts.ndjson> <out.ndjson> | record <seed> <n> <out.ndjson>"
            );
            std::process::exit(2);
        }
    }
}
