fn main() {
    use librqbit_utp::verif_api::*;
    let mut r = RttEstimator::default();
    r.sample(std::time::Duration::from_millis(50));
    println!("{:?} {}", r.retransmission_timeout(), seq_nr_offset(0, 65535, 1024));
}
