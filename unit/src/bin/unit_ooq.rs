//! Driver for the receiver's reassembly machinery (src/stream_rx.rs): `UserRx` (which owns the
//! `OutOfOrderQueue`) and the public `UtpStreamReadHalf`, through `librqbit_utp::verif_api`.
//! Serves C04 / C01 / C03 (specification: spec/Reasm.tla).
//!
//!   unit_ooq replay <cap> <maxp> <cases.ndjson> <answers.ndjson>
//!       spec -> impl.  A case is a line `[history, call, expected]` as printed by MCReasm.tla
//!       (`expected` is NOT used here).  history ++ [call] is executed on fresh objects built with
//!       `UserRx::build(cap, maxp)`; the output line is `[history, call, answer]` in the same
//!       layout, the answer to the last call being
//!       `[res, n, bytes, errid, runs, rwake, dwake, ub, pb, pk, win, aempty, sack_some, sack, rdrop]`
//!       (or `{"panic": step, "msg": ..}` in its place).
//!   unit_ooq script <script.ndjson> <out.ndjson>
//!       every input line `{"cfg":[cap,maxp,nslots],"ops":[call, ...]}` is executed and recorded
//!       like a run of `record` (one `new` line, one line per call).
//!   unit_ooq record <seed> <n> <out.ndjson>
//!       impl -> spec.  About n lines of seeded random runs with realistic sizes (capacity 2 KiB ..
//!       64 KiB, payloads 1 .. 1400 bytes, 1 .. 650 slots, offsets beyond 64), one line per call
//!       with the real results and the observable state after the call (format: ReasmTrace.tla).
//!
//! Calls (compact form): ["a", offset, len] arrive (len 0: ST_FIN), ["f"] flush, ["F"]
//! flush_all_before_close, ["r", buflen, ...] poll_read_vectored with these buffers, ["d"] drop
//! the read half, ["e"] enqueue_error, ["c"] mark_vsock_closed, ["w"] register_dispatcher_waker.
//!
//! Messages are built from bytes (`UtpMessage::deserialize` of a hand-serialised 20-byte header +
//! payload).  The byte at position p of the payload with sequence number s (1, 2, 3, ... in
//! stream order; the driver follows the implementation's `Consumed{sequence_numbers}` answers to
//! turn an offset into a sequence number, as the dispatcher does) is (16 * s + p) mod 251, so the
//! bytes a read returns say which (s, p) they are.  What a read returned is written losslessly as
//! maximal runs [first value, count] of values that go up by one modulo 251.
//!
//! The read half is polled by hand through its public `poll_read_vectored` (`AsyncRead::poll_read`
//! is a three-line wrapper around it with a single buffer) with a counting waker; `add_remove` /
//! `flush` get a second counting waker, so lost wake-ups are observable.
//! A panic in the code under test is data: it is caught and recorded, and ends the run.

use std::collections::BTreeSet;
use std::io::{BufRead, IoSliceMut};
use std::num::NonZeroUsize;
use std::panic::{AssertUnwindSafe, catch_unwind};
use std::pin::Pin;
use std::sync::Arc;
use std::sync::atomic::{AtomicUsize, Ordering};
use std::task::{Context, Poll, Wake, Waker};

use librqbit_utp::UtpStreamReadHalf;
use librqbit_utp::verif_api::{AssemblerAddRemoveResult, UserRx, UtpMessage};
use serde_json::{Value, json};
use utp_verif_unit::{Out, Rng};

const ENC_MOD: u64 = 251;
const ENC_STRIDE: u64 = 16;

fn enc(s: u64, p: u64) -> u8 {
    ((ENC_STRIDE * s + p) % ENC_MOD) as u8
}

static IN_SUT: std::sync::atomic::AtomicBool = std::sync::atomic::AtomicBool::new(false);

/// catch_unwind around code under test
fn sut<T>(f: impl FnOnce() -> T) -> Result<T, String> {
    IN_SUT.store(true, Ordering::SeqCst);
    let r = catch_unwind(AssertUnwindSafe(f));
    IN_SUT.store(false, Ordering::SeqCst);
    r.map_err(panic_msg)
}

struct Cnt(AtomicUsize);
impl Wake for Cnt {
    fn wake(self: Arc<Self>) {
        self.0.fetch_add(1, Ordering::SeqCst);
    }
    fn wake_by_ref(self: &Arc<Self>) {
        self.0.fetch_add(1, Ordering::SeqCst);
    }
}

fn panic_msg(e: Box<dyn std::any::Any + Send>) -> String {
    if let Some(s) = e.downcast_ref::<&str>() {
        s.to_string()
    } else if let Some(s) = e.downcast_ref::<String>() {
        s.clone()
    } else {
        "panic".to_string()
    }
}

/// A 20-byte uTP header (version 1, no extensions) followed by the payload.
fn datagram(fin: bool, seq: u64, payload: &[u8]) -> Vec<u8> {
    let mut b = vec![0u8; 20 + payload.len()];
    b[0] = ((if fin { 1u8 } else { 0u8 }) << 4) | 1; // ST_FIN = 1, ST_DATA = 0; version 1
    b[1] = 0; // no extension
    b[2..4].copy_from_slice(&0x1234u16.to_be_bytes()); // connection id
    b[16..18].copy_from_slice(&((seq & 0xffff) as u16).to_be_bytes());
    b[20..].copy_from_slice(payload);
    b
}

#[derive(Clone, Debug)]
enum Call {
    Arrive { off: usize, len: usize }, // len 0: ST_FIN
    Flush,
    FlushAll,
    Read(Vec<usize>),
    DropReader,
    Error,
    Close,
    RegWaker,
}

impl Call {
    fn parse(v: &Value) -> Call {
        let a = v.as_array().expect("call is an array");
        let us = |i: usize| a[i].as_u64().expect("integer argument") as usize;
        match a[0].as_str().expect("call name") {
            "a" => Call::Arrive { off: us(1), len: us(2) },
            "f" => Call::Flush,
            "F" => Call::FlushAll,
            "r" => Call::Read((1..a.len()).map(us).collect()),
            "d" => Call::DropReader,
            "e" => Call::Error,
            "c" => Call::Close,
            "w" => Call::RegWaker,
            x => panic!("unknown call {x}"),
        }
    }
    fn name(&self) -> &'static str {
        match self {
            Call::Arrive { .. } => "arrive",
            Call::Flush => "flush",
            Call::FlushAll => "flush_all",
            Call::Read(_) => "read",
            Call::DropReader => "drop_reader",
            Call::Error => "error",
            Call::Close => "close",
            Call::RegWaker => "regwaker",
        }
    }
}

/// The result of one call.
#[derive(Default)]
struct Ans {
    res: &'static str,
    n: usize,
    bytes: usize,
    errid: i64,
    errtext: String,
    runs: Vec<(u64, u64)>,
}

struct Obs {
    ub: usize,
    pb: usize,
    pk: usize,
    win: usize,
    aempty: bool,
    sack_some: bool,
    sack: Vec<usize>,
    rdrop: bool,
}

struct Sys {
    rx: UserRx,
    rd: Option<UtpStreamReadHalf>,
    rcnt: Arc<Cnt>,
    dcnt: Arc<Cnt>,
    rwaker: Waker,
    dwaker: Waker,
    /// sequence numbers consumed in order so far, according to the implementation's answers
    consumed: u64,
    nerr: u64,
}

fn rle(data: &[u8]) -> Vec<(u64, u64)> {
    let mut runs: Vec<(u64, u64)> = vec![];
    for &b in data {
        let b = b as u64;
        match runs.last_mut() {
            Some((v, k)) if b < ENC_MOD && *v < ENC_MOD && (*v + *k) % ENC_MOD == b => *k += 1,
            _ => runs.push((b, 1)),
        }
    }
    runs
}

impl Sys {
    fn new(cap: usize, maxp: usize) -> Sys {
        let (rx, rd) = UserRx::build(NonZeroUsize::new(cap).expect("cap"), NonZeroUsize::new(maxp).expect("maxp"));
        let rcnt = Arc::new(Cnt(AtomicUsize::new(0)));
        let dcnt = Arc::new(Cnt(AtomicUsize::new(0)));
        Sys {
            rx,
            rd: Some(rd),
            rwaker: Waker::from(rcnt.clone()),
            dwaker: Waker::from(dcnt.clone()),
            rcnt,
            dcnt,
            consumed: 0,
            nerr: 0,
        }
    }

    fn obs(&self) -> Obs {
        let sack = self.rx.selective_ack();
        Obs {
            ub: self.rx.verif_user_bytes(),
            pb: self.rx.verif_parked_bytes(),
            pk: self.rx.verif_parked_packets(),
            win: self.rx.remaining_rx_window(),
            aempty: self.rx.assembler_empty(),
            sack_some: sack.is_some(),
            sack: sack
                .map(|s| s.iter().enumerate().filter(|(_, b)| *b).map(|(i, _)| i).collect())
                .unwrap_or_default(),
            rdrop: self.rx.is_reader_dropped(),
        }
    }

    fn exec(&mut self, c: &Call) -> Ans {
        let mut a = Ans { res: "ok", ..Default::default() };
        match c {
            Call::Arrive { off, len } => {
                let s = self.consumed + *off as u64 + 1;
                let payload: Vec<u8> = (0..*len as u64).map(|p| enc(s, p)).collect();
                let msg = UtpMessage::deserialize(&datagram(*len == 0, s, &payload)).expect("driver built a bad datagram");
                let mut cx = Context::from_waker(&self.dwaker);
                match self.rx.add_remove(&mut cx, msg, *off) {
                    Ok(AssemblerAddRemoveResult::Consumed { sequence_numbers, bytes }) => {
                        self.consumed += sequence_numbers as u64;
                        a.res = "consumed";
                        a.n = sequence_numbers;
                        a.bytes = bytes;
                    }
                    Ok(AssemblerAddRemoveResult::AlreadyPresent) => a.res = "present",
                    Ok(AssemblerAddRemoveResult::Unavailable(_)) => a.res = "unavailable",
                    Err(e) => {
                        a.res = "err";
                        a.errid = -2;
                        a.errtext = format!("{e:#}");
                    }
                }
            }
            Call::Flush => {
                let mut cx = Context::from_waker(&self.dwaker);
                match self.rx.flush(&mut cx) {
                    Ok(n) => a.n = n,
                    Err(e) => {
                        a.res = "err";
                        a.errid = -2;
                        a.errtext = format!("{e:#}");
                    }
                }
            }
            Call::FlushAll => self.rx.flush_all_before_close(),
            Call::Read(lens) => {
                let rd = self.rd.as_mut().expect("read after the read half was dropped");
                let mut store: Vec<Vec<u8>> = lens.iter().map(|&l| vec![0xffu8; l]).collect();
                let polled = {
                    let mut iov: Vec<IoSliceMut<'_>> = store.iter_mut().map(|b| IoSliceMut::new(b)).collect();
                    let mut cx = Context::from_waker(&self.rwaker);
                    Pin::new(rd).poll_read_vectored(&mut cx, &mut iov)
                };
                match polled {
                    Poll::Pending => a.res = "pending",
                    Poll::Ready(Ok(0)) => a.res = "eof",
                    Poll::Ready(Ok(n)) => {
                        a.n = n;
                        let all: Vec<u8> = store.concat();
                        a.runs = rle(&all[..n.min(all.len())]);
                        if n > all.len() {
                            a.runs.push((255, (n - all.len()) as u64)); // claims more than the buffers hold
                        }
                    }
                    Poll::Ready(Err(e)) => {
                        a.res = "err";
                        let t = e.to_string();
                        a.errid = if t == "dispatcher dead" {
                            -1
                        } else {
                            t.strip_prefix("enqueued error #").and_then(|k| k.parse::<i64>().ok()).unwrap_or(-2)
                        };
                        a.errtext = t;
                    }
                }
            }
            Call::DropReader => drop(self.rd.take()),
            Call::Error => {
                self.nerr += 1;
                self.rx.enqueue_error(format!("enqueued error #{}", self.nerr));
            }
            Call::Close => self.rx.mark_vsock_closed(),
            Call::RegWaker => {
                let mut cx = Context::from_waker(&self.dwaker);
                self.rx.register_dispatcher_waker(&mut cx);
            }
        }
        a
    }

    /// One call with the wake-ups it caused; Err(message) if the code under test panicked.
    fn step(&mut self, c: &Call) -> Result<(Ans, usize, usize, Obs), String> {
        let r0 = self.rcnt.0.load(Ordering::SeqCst);
        let d0 = self.dcnt.0.load(Ordering::SeqCst);
        let (a, o) = sut(|| {
            let a = self.exec(c);
            let o = self.obs();
            (a, o)
        })?;
        Ok((a, self.rcnt.0.load(Ordering::SeqCst) - r0, self.dcnt.0.load(Ordering::SeqCst) - d0, o))
    }
}

fn runs_json(runs: &[(u64, u64)]) -> Value {
    Value::Array(runs.iter().map(|(v, k)| json!([v, k])).collect())
}

/// The answer in the layout of MCReasm's ExpTuple.
fn answer_tuple(a: &Ans, rw: usize, dw: usize, o: &Obs) -> Value {
    json!([a.res, a.n, a.bytes, a.errid, runs_json(&a.runs), rw, dw, o.ub, o.pb, o.pk, o.win, o.aempty, o.sack_some, o.sack, o.rdrop])
}

/// A line of a recording (ReasmTrace.tla): every line has every field.
fn line(op: &str, a_: usize, b_: usize, fin: bool, a: &Ans, rw: usize, dw: usize, o: &Obs) -> Value {
    json!({"op": op, "a": a_, "b": b_, "fin": fin, "res": a.res, "n": a.n, "bytes": a.bytes, "errid": a.errid,
           "runs": runs_json(&a.runs), "rwake": rw, "dwake": dw,
           "ub": o.ub, "pb": o.pb, "pk": o.pk, "win": o.win, "aempty": o.aempty,
           "sack_some": o.sack_some, "sack": o.sack, "rdrop": o.rdrop, "msg": a.errtext})
}

fn panic_line(during: &str, msg: &str) -> Value {
    json!({"op": "panic", "a": 0, "b": 0, "fin": false, "res": during, "n": 0, "bytes": 0, "errid": 0, "runs": [],
           "rwake": 0, "dwake": 0, "ub": 0, "pb": 0, "pk": 0, "win": 0, "aempty": true, "sack_some": false,
           "sack": [], "rdrop": false, "msg": msg})
}

fn call_line(c: &Call, a: &Ans, rw: usize, dw: usize, o: &Obs) -> Value {
    match c {
        Call::Arrive { off, len } => line("arrive", *off, *len, *len == 0, a, rw, dw, o),
        Call::Read(lens) => {
            let mut v = line("read", lens.iter().sum(), lens.len(), false, a, rw, dw, o);
            v["bufs"] = json!(lens);
            v
        }
        other => line(other.name(), 0, 0, false, a, rw, dw, o),
    }
}

fn nslots_of(cap: usize, maxp: usize) -> usize {
    // documented in UserRx::build: one slot per largest payload that fits the buffer; 64 if none fits
    let q = cap / maxp;
    if q == 0 { 64 } else { q }
}

/// Builds fresh objects and writes the `new` line.  None if `build` panicked.
fn start(out: &mut Out, cap: usize, maxp: usize, nslots: usize, extra: &Value) -> Option<Sys> {
    match sut(|| Sys::new(cap, maxp)) {
        Ok(sys) => {
            let a = Ans { res: "ok", n: nslots, ..Default::default() };
            let mut v = line("new", cap, maxp, false, &a, 0, 0, &sys.obs());
            if let Some(m) = extra.as_object() {
                for (k, x) in m {
                    v[k] = x.clone();
                }
            }
            out.line(v);
            Some(sys)
        }
        Err(p) => {
            let a = Ans { res: "ok", n: nslots, ..Default::default() };
            let o = Obs { ub: 0, pb: 0, pk: 0, win: cap, aempty: true, sack_some: false, sack: vec![], rdrop: false };
            out.line(line("new", cap, maxp, false, &a, 0, 0, &o));
            out.line(panic_line("new", &p));
            None
        }
    }
}

// ------------------------------------------------------------------------------------------ replay
fn replay(cap: usize, maxp: usize, cases: &str, answers: &str) {
    let f = std::io::BufReader::new(std::fs::File::open(cases).expect("open cases"));
    let mut out = Out::create(answers);
    for l in f.lines() {
        let l = l.unwrap();
        if l.trim().is_empty() {
            continue;
        }
        let v: Value = serde_json::from_str(&l).expect("case json");
        let hist = v[0].as_array().expect("history");
        let mut calls: Vec<Call> = hist.iter().map(Call::parse).collect();
        calls.push(Call::parse(&v[1]));
        let mut answer = Value::Null;
        match sut(|| Sys::new(cap, maxp)) {
            Err(p) => answer = json!({"panic": 0, "msg": p}),
            Ok(mut sys) => {
                let last = calls.len() - 1;
                for (i, c) in calls.iter().enumerate() {
                    match sys.step(c) {
                        Ok((a, rw, dw, o)) => {
                            if i == last {
                                answer = answer_tuple(&a, rw, dw, &o);
                            }
                        }
                        Err(msg) => {
                            answer = json!({"panic": i + 1, "msg": msg});
                            break;
                        }
                    }
                }
            }
        }
        out.line(json!([v[0], v[1], answer]));
    }
    let n = out.finish();
    println!("cases={n}");
}

// ------------------------------------------------------------------------------------------ script
fn script(path: &str, outp: &str) {
    let f = std::io::BufReader::new(std::fs::File::open(path).expect("open script"));
    let mut out = Out::create(outp);
    for l in f.lines() {
        let l = l.unwrap();
        if l.trim().is_empty() {
            continue;
        }
        let v: Value = serde_json::from_str(&l).expect("script json");
        let cap = v["cfg"][0].as_u64().expect("cap") as usize;
        let maxp = v["cfg"][1].as_u64().expect("maxp") as usize;
        let nslots = v["cfg"].get(2).and_then(|x| x.as_u64()).map(|x| x as usize).unwrap_or(nslots_of(cap, maxp));
        let Some(mut sys) = start(&mut out, cap, maxp, nslots, &Value::Null) else { continue };
        for c in v["ops"].as_array().expect("ops") {
            let c = Call::parse(c);
            if matches!(c, Call::Read(_)) && sys.rd.is_none() {
                continue; // no read half to read from
            }
            match sys.step(&c) {
                Ok((a, rw, dw, o)) => out.line(call_line(&c, &a, rw, dw, &o)),
                Err(msg) => {
                    out.line(panic_line(c.name(), &msg));
                    break;
                }
            }
        }
    }
    let n = out.finish();
    println!("lines={n}");
}

// ------------------------------------------------------------------------------------------ record
const CONFIGS: &[(usize, usize)] = &[
    // (capacity, largest payload): slots = capacity / payload
    (2048, 1400),  // 1 slot
    (2048, 1000),  // 2
    (2048, 512),   // 4, capacity a multiple of the payload
    (3000, 1400),  // 2, odd capacity
    (4096, 1400),  // 2
    (4096, 100),   // 40
    (8192, 1400),  // 5
    (8192, 128),   // 64
    (8320, 128),   // 65
    (16384, 1400), // 11
    (16384, 250),  // 65
    (16384, 100),  // 163
    (65536, 1400), // 46
    (65536, 1000), // 65
    (65536, 500),  // 131
    (65536, 100),  // 655
    (5000, 77),    // 64
    (2048, 31),    // 66
];

/// Every recording starts with these runs (capacity, largest payload, payload lengths, arrival
/// pattern, reader, ending: see `Gen`), so that every branch of every rule is exercised whatever
/// the seed; random profiles follow.
const TOUR: &[(usize, usize, u64, u64, u64, u64)] = &[
    (2048, 512, 1, 0, 2, 1),   // reader stopped, buffer filled to the byte, slots full; flush_all beyond capacity; data, then the error
    (4096, 100, 2, 1, 1, 0),   // slow reader, reordering, FIN: end of stream after the data
    (8192, 1400, 2, 1, 0, 1),  // fast reader that waits, then the error
    (65536, 500, 2, 3, 0, 3),  // 131 slots, offsets around the 64-bit selective-ACK limit; FIN, then an error
    (16384, 1400, 2, 2, 3, 2), // duplicates; the reader is dropped on the way; closed
    (3000, 1400, 0, 4, 2, 2),  // hostile arrivals, reader stopped, closed: dispatcher dead after the data
    (8192, 128, 3, 1, 0, 4),   // 64 slots, powers of two, no ending
];

const BUFS: &[usize] = &[1, 1, 2, 3, 7, 16, 64, 100, 511, 512, 513, 1399, 1400, 1401, 2048, 4096, 16384, 70000];

struct Gen {
    r: Rng,
    cap: usize,
    maxp: usize,
    nslots: usize,
    /// sequence numbers the driver believes are parked out of order (accepted with Consumed{0, 0})
    held: BTreeSet<u64>,
    lens: u64,    // 0 small, 1 full-size, 2 mixed, 3 powers of two
    arrive: u64,  // 0 mostly in order, 1 reordering, 2 duplicates, 3 wide (offsets around the SACK limit), 4 hostile
    reader: u64,  // 0 fast, 1 slow (small buffers), 2 stopped, 3 dropped on the way
    ending: u64,  // 0 fin, 1 error, 2 close, 3 fin then error, 4 none
}

impl Gen {
    /// `free`: capacity - (bytes in the reader's queue + bytes parked), as last observed
    fn pick_len(&mut self, free: usize) -> usize {
        let m = self.maxp as u64;
        if free >= 1 && free as u64 <= m && self.r.below(4) == 0 {
            return free; // fills the receive buffer to the byte
        }
        let v = match self.lens {
            0 => 1 + self.r.below(8),
            1 => {
                if self.r.below(10) == 0 { 1 + self.r.below(m) } else { m }
            }
            3 => 1u64 << self.r.below(11),
            _ => match self.r.below(8) {
                0 => 1,
                1 => m,
                2 => m.saturating_sub(1).max(1),
                3 => 16,
                4 => 251,
                5 => 267,
                _ => 1 + self.r.below(m),
            },
        };
        let v = v.min(m).max(1);
        // rarely a payload larger than the receiver was built for (the peer's packets may grow)
        if self.arrive == 4 && self.r.below(20) == 0 { (v + 1 + self.r.below(m)) as usize } else { v as usize }
    }

    fn pick_off(&mut self, consumed: u64, pk: usize) -> usize {
        // the in-order front that is still parked
        let ff = pk.saturating_sub(self.held.len());
        let room = self.nslots.saturating_sub(ff); // offsets 0 .. room-1 have a slot
        let top = self.held.iter().next_back().map(|s| (s - consumed) as usize).unwrap_or(0); // offset after the highest held
        let p = self.r.below(100);
        let w = match self.arrive {
            0 => [70, 5, 10, 5, 0, 10],
            1 => [35, 5, 35, 10, 5, 10],
            2 => [35, 35, 15, 5, 0, 10],
            3 => [20, 5, 15, 10, 40, 10],
            _ => [25, 10, 15, 20, 10, 20],
        };
        let mut acc = 0;
        let mut k = 0;
        for (i, x) in w.iter().enumerate() {
            acc += x;
            if p < acc {
                k = i;
                break;
            }
        }
        match k {
            0 => 0,
            1 => {
                // a duplicate of something held out of order
                if self.held.is_empty() {
                    0
                } else {
                    let i = self.r.below(self.held.len() as u64) as usize;
                    (*self.held.iter().nth(i).unwrap() - consumed - 1) as usize
                }
            }
            2 => top + self.r.below(3) as usize, // next to / shortly after the highest held
            3 => self.r.below((self.nslots as u64 + 3).min(90)) as usize,
            4 => 60 + self.r.below(10) as usize, // around the 64-bit selective-ACK limit
            _ => {
                // around the last slot
                let d = self.r.below(4) as usize;
                if self.r.below(2) == 0 { room.saturating_sub(d) } else { room + d }
            }
        }
    }

    fn pick_bufs(&mut self, reader: u64) -> Vec<usize> {
        let one = |g: &mut Gen| -> usize {
            match reader {
                1 => [1usize, 1, 2, 3, 7, 16, 64][g.r.below(7) as usize],
                _ => {
                    if g.r.below(4) == 0 { 1 + g.r.below(3000) as usize } else { g.r.pick(BUFS) }
                }
            }
        };
        if self.r.below(5) == 0 {
            (0..2 + self.r.below(2)).map(|_| one(self).min(5000)).collect()
        } else {
            vec![one(self)]
        }
    }
}

fn record(seed: u64, n: usize, path: &str) {
    let mut out = Out::create(path);
    let mut top = Rng(seed.wrapping_mul(0x9E37_79B9_7F4A_7C15) ^ 0x00C0_FFEE);
    let mut run = 0u64;
    while out.lines < n {
        let tour = TOUR.get(run as usize);
        let (cap, maxp) = match tour {
            Some(t) => (t.0, t.1),
            None => CONFIGS[((run + seed) % CONFIGS.len() as u64) as usize],
        };
        let nslots = nslots_of(cap, maxp);
        let mut g = Gen {
            r: Rng(top.next()),
            cap,
            maxp,
            nslots,
            held: BTreeSet::new(),
            lens: 0,
            arrive: 0,
            reader: 0,
            ending: 0,
        };
        g.lens = g.r.below(4);
        g.arrive = if nslots >= 65 && g.r.below(2) == 0 { 3 } else { g.r.below(5) };
        g.reader = g.r.below(4);
        g.ending = g.r.below(5);
        if let Some(t) = tour {
            (g.lens, g.arrive, g.reader, g.ending) = (t.2, t.3, t.4, t.5);
        }
        let body = 30 + g.r.below(if run % 3 == 0 { 270 } else { 90 }) as usize;
        let extra = json!({"run": run, "profile": [g.lens, g.arrive, g.reader, g.ending]});
        run += 1;
        let Some(mut sys) = start(&mut out, g.cap, maxp, nslots, &extra) else { continue };
        let mut seen = (0usize, 0usize, 0usize); // (ub, pb, pk) as last observed
        let mut dead = false;
        let drop_at = if g.reader == 3 { g.r.below(body as u64) as usize } else { usize::MAX };
        // one call, recorded; false if the code under test panicked
        let doit = |sys: &mut Sys, g: &mut Gen, out: &mut Out, c: Call, seen: &mut (usize, usize, usize)| -> Option<Ans> {
            let before = sys.consumed;
            match sys.step(&c) {
                Ok((a, rw, dw, o)) => {
                    out.line(call_line(&c, &a, rw, dw, &o));
                    *seen = (o.ub, o.pb, o.pk);
                    if let Call::Arrive { off, .. } = c {
                        if a.res == "consumed" && a.n == 0 {
                            g.held.insert(before + off as u64 + 1);
                        }
                        let cons = sys.consumed;
                        g.held.retain(|s| *s > cons);
                    }
                    Some(a)
                }
                Err(msg) => {
                    out.line(panic_line(c.name(), &msg));
                    None
                }
            }
        };
        let mut i = 0usize;
        'body: while i < body {
            // a batch of arrivals (one poll of the dispatcher), then a flush, as the dispatcher does
            let batch = 1 + g.r.below(4) as usize;
            for _ in 0..batch {
                let off = g.pick_off(sys.consumed, seen.2);
                let len = g.pick_len(g.cap.saturating_sub(seen.0 + seen.1));
                i += 1;
                if doit(&mut sys, &mut g, &mut out, Call::Arrive { off, len }, &mut seen).is_none() {
                    dead = true;
                    break 'body;
                }
            }
            if g.r.below(10) < 8 {
                i += 1;
                if doit(&mut sys, &mut g, &mut out, Call::Flush, &mut seen).is_none() {
                    dead = true;
                    break 'body;
                }
            }
            if g.r.below(12) == 0 {
                i += 1;
                if doit(&mut sys, &mut g, &mut out, Call::RegWaker, &mut seen).is_none() {
                    dead = true;
                    break 'body;
                }
            }
            if i >= drop_at && sys.rd.is_some() {
                i += 1;
                if doit(&mut sys, &mut g, &mut out, Call::DropReader, &mut seen).is_none() {
                    dead = true;
                    break 'body;
                }
            }
            // the reader
            if sys.rd.is_some() {
                let reads = match g.reader {
                    0 | 3 => 1 + g.r.below(4),                       // fast: often until nothing is left
                    1 => g.r.below(3),                                // slow
                    _ => u64::from(g.r.below(40) == 0),               // (almost) stopped
                };
                for _ in 0..reads {
                    let bufs = g.pick_bufs(g.reader);
                    i += 1;
                    match doit(&mut sys, &mut g, &mut out, Call::Read(bufs), &mut seen) {
                        None => {
                            dead = true;
                            break 'body;
                        }
                        Some(a) if a.res != "ok" => break,
                        _ => {}
                    }
                }
            }
        }
        if dead {
            continue;
        }
        // the ending
        let mut tail: Vec<Call> = vec![];
        if g.ending == 0 || g.ending == 3 {
            // the peer's FIN: sometimes ahead of a hole that is then filled
            if g.r.below(3) == 0 && nslots >= 2 {
                tail.push(Call::Arrive { off: 1, len: 0 });
                tail.push(Call::Arrive { off: 0, len: g.pick_len(0) });
            } else {
                tail.push(Call::Arrive { off: 0, len: 0 });
            }
            tail.push(Call::Flush);
            if g.r.below(2) == 0 {
                // something after the FIN (must not reach the reader)
                tail.push(Call::Arrive { off: 0, len: 1 });
                tail.push(Call::Flush);
            }
        }
        if g.ending <= 3 && g.r.below(2) == 0 {
            // the last packets before the end are consumed (acknowledged) but not flushed yet
            for _ in 0..1 + g.r.below(3) {
                tail.push(Call::Arrive { off: 0, len: g.pick_len(0) });
            }
        }
        match g.ending {
            0 | 2 => {
                tail.push(Call::FlushAll);
                tail.push(Call::Close);
            }
            1 | 3 => {
                tail.push(Call::FlushAll);
                tail.push(Call::Error);
                if g.r.below(4) == 0 {
                    tail.push(Call::Error);
                }
                tail.push(Call::Close);
                if g.r.below(4) == 0 {
                    tail.push(Call::Close);
                }
            }
            _ => {}
        }
        for c in tail {
            if doit(&mut sys, &mut g, &mut out, c, &mut seen).is_none() {
                dead = true;
                break;
            }
        }
        if dead || sys.rd.is_none() {
            continue;
        }
        // drain: "given enough reads" the reader gets everything, then end of stream / the error / nothing
        let mut quiet = 0;
        let mut k = 0;
        while quiet < 2 && k < 400 {
            k += 1;
            let bufs = if g.reader == 1 && k < 60 { g.pick_bufs(1) } else { g.pick_bufs(0) };
            match doit(&mut sys, &mut g, &mut out, Call::Read(bufs), &mut seen) {
                None => break,
                Some(a) => {
                    if a.res == "ok" { quiet = 0 } else { quiet += 1 }
                }
            }
        }
    }
    let lines = out.finish();
    println!("lines={lines} runs={run}");
}

fn main() {
    // panics of the code under test are data, not noise; the driver's own are reported
    std::panic::set_hook(Box::new(|info| {
        if !IN_SUT.load(Ordering::SeqCst) {
            eprintln!("unit_ooq: {info}");
        }
    }));
    let a: Vec<String> = std::env::args().collect();
    match a.get(1).map(|s| s.as_str()) {
        Some("replay") if a.len() == 6 => replay(a[2].parse().expect("cap"), a[3].parse().expect("maxp"), &a[4], &a[5]),
        Some("script") if a.len() == 4 => script(&a[2], &a[3]),
        Some("record") if a.len() == 5 => record(a[2].parse().expect("seed"), a[3].parse().expect("n"), &a[4]),
        _ => {
            eprintln!(
                "usage: unit_ooq replay <cap> <maxp> <cases.ndjson> <answers.ndjson> | script <script.ndjson> <out.ndjson> | record <seed> <n> <out.ndjson>"
            );
            std::process::exit(2);
        }
    }
}
