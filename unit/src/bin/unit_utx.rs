//! Driver for the sender's application half (src/stream_tx.rs): `UserTx` (the TX ring buffer shared
//! between the writer and the connection task, through `librqbit_utp::verif_api`) and the public
//! `UtpStreamWriteHalf` (built with its public constructor `UtpStreamWriteHalf::new(Arc<UserTx>)`).
//! Serves C19 / C01 / C03 (specification: spec/TxRing.tla).
//!
//!   unit_utx replay <init> <max> <cases.ndjson> <answers.ndjson>
//!       spec -> impl.  A case is a line `[history, call, expected]` as printed by MCTxRing.tla
//!       (`expected` is NOT used here).  history ++ [call] is executed on fresh objects built with
//!       `UserTx::new(init)`; the output line is `[history, call, answer]` in the same layout, the
//!       answer to the last call being
//!       `[res, n, err, wwake, dwake, runs, len, cap, wreg, dreg, shut, dropped, wrapped, content]`
//!       (or `{"panic": step, "msg": ..}` in its place).
//!   unit_utx script <script.ndjson> <out.ndjson>
//!       every input line `{"cfg":[init,max],"ops":[call, ...]}` is executed and recorded like a
//!       run of `record` (one `new` line, one line per call).
//!   unit_utx record <seed> <n> <out.ndjson>
//!       impl -> spec.  About n lines of seeded random runs with realistic sizes (initial 1 KiB ..
//!       64 KiB, maximum up to 1 MiB incl. ratios that are no power of two and a maximum below the
//!       initial size, writes of 1 .. 100 000 bytes, vectored writes, acknowledgements of packet
//!       size), one line per call with the real results and the observable state after the call
//!       (format: TxRingTrace.tla).
//!
//! Calls (compact form): ["w", len] poll_write, ["v", len, ...] poll_write_vectored with these
//! buffers, ["f"] poll_flush, ["s"] poll_shutdown, ["d"] drop the write half, ["t", n] an
//! acknowledgement of n bytes, ["g"] growth, ["c"] mark_vsock_closed, ["r"] the connection task
//! registers its waker, ["R", offset, len] the connection task reads [offset, offset + len).
//!
//! The connection task's side.  `UserTx` has no method for "acknowledge and wake": the connection
//! task (src/stream_dispatch.rs) composes it, and this driver performs the same statements in its
//! place -- they are the protocol the write half relies on, not code under test:
//!   ["t", n]  process_all_incoming_messages:  g = locked.write(); truncate_front(n)?;
//!             w = g.writer_waker.take(); drop(g); wake w
//!   ["g"]     split_tx_queue_into_segments:   if grow(max) is Some: take and wake writer_waker
//!             (here at ANY fill level; the connection task grows above 90 %)
//!   ["r"]     split_tx_queue_into_segments:   update_optional_waker(&mut g.dispatcher_waker, cx)
//!             (here at any time; the connection task registers when the ring is empty)
//!   ["R",..]  send_data!:  consumer.lock().as_slices() cut to [offset, offset + len) as
//!             utils::prepare_2_ioslices does
//!
//! The byte at position p of the accepted stream (0, 1, 2, ...; the driver follows the
//! implementation's own `Ok(n)` answers) is p mod 251, so the bytes found in the ring say which
//! positions they are.  A byte string is written losslessly as maximal runs [first value, count]
//! of values that go up by one modulo 251.
//!
//! Needs `tokio` and `ringbuf` as direct dependencies of this crate (the versions the library
//! itself uses): poll_write / poll_flush / poll_shutdown exist only as methods of the trait
//! `tokio::io::AsyncWrite`, and the ring is readable only through `ringbuf`'s `Observer` /
//! `Consumer` traits on the public fields `UserTx::consumer` / `producer`.
//!
//! The write half is polled by hand through `tokio::io::AsyncWrite` with a counting waker; the
//! connection task's side gets a second counting waker, so lost wake-ups are observable.
//! A panic in the code under test is data: it is caught and recorded, and ends the run.

use std::io::{BufRead, IoSlice};
use std::num::NonZeroUsize;
use std::panic::{AssertUnwindSafe, catch_unwind};
use std::pin::Pin;
use std::sync::Arc;
use std::sync::atomic::{AtomicUsize, Ordering};
use std::task::{Context, Poll, Wake, Waker};

use librqbit_utp::UtpStreamWriteHalf;
use librqbit_utp::verif_api::UserTx;
use ringbuf::traits::{Consumer, Observer};
use serde_json::{Value, json};
use tokio::io::AsyncWrite;
use utp_verif_unit::{Out, Rng};

const ENC_MOD: u64 = 251;

fn enc(p: u64) -> u8 {
    (p % ENC_MOD) as u8
}

static IN_SUT: std::sync::atomic::AtomicBool = std::sync::atomic::AtomicBool::new(false);

/// catch_unwind around code under test
fn sut<T>(f: impl FnOnce() -> T) -> Result<T, String> {
    IN_SUT.store(true, Ordering::SeqCst);
    let r = catch_unwind(AssertUnwindSafe(f));
    IN_SUT.store(false, Ordering::SeqCst);
    r.map_err(panic_msg)
}

struct Cnt(AtomicUsize);
impl Wake for Cnt {
    fn wake(self: Arc<Self>) {
        self.0.fetch_add(1, Ordering::SeqCst);
    }
    fn wake_by_ref(self: &Arc<Self>) {
        self.0.fetch_add(1, Ordering::SeqCst);
    }
}

fn panic_msg(e: Box<dyn std::any::Any + Send>) -> String {
    if let Some(s) = e.downcast_ref::<&str>() {
        s.to_string()
    } else if let Some(s) = e.downcast_ref::<String>() {
        s.clone()
    } else {
        "panic".to_string()
    }
}

#[derive(Clone, Debug)]
enum Call {
    Write(usize),
    WriteV(Vec<usize>),
    Flush,
    Shutdown,
    DropWriter,
    Ack(usize),
    Grow,
    Close,
    RegDisp,
    Read(usize, usize),
}

impl Call {
    fn parse(v: &Value) -> Call {
        let a = v.as_array().expect("call is an array");
        let us = |i: usize| a[i].as_u64().expect("integer argument") as usize;
        match a[0].as_str().expect("call name") {
            "w" => Call::Write(us(1)),
            "v" => Call::WriteV((1..a.len()).map(us).collect()),
            "f" => Call::Flush,
            "s" => Call::Shutdown,
            "d" => Call::DropWriter,
            "t" => Call::Ack(us(1)),
            "g" => Call::Grow,
            "c" => Call::Close,
            "r" => Call::RegDisp,
            "R" => Call::Read(us(1), us(2)),
            x => panic!("unknown call {x}"),
        }
    }
    fn name(&self) -> &'static str {
        match self {
            Call::Write(_) | Call::WriteV(_) => "write",
            Call::Flush => "flush",
            Call::Shutdown => "shutdown",
            Call::DropWriter => "drop",
            Call::Ack(_) => "ack",
            Call::Grow => "grow",
            Call::Close => "close",
            Call::RegDisp => "regdisp",
            Call::Read(..) => "read",
        }
    }
    fn is_writer(&self) -> bool {
        matches!(self, Call::Write(_) | Call::WriteV(_) | Call::Flush | Call::Shutdown | Call::DropWriter)
    }
}

/// The result of one call.
#[derive(Default)]
struct Ans {
    res: &'static str,
    n: usize,
    err: &'static str,
    errtext: String,
    runs: Vec<(u64, u64)>,
}

struct Obs {
    len: usize,
    cap: usize,
    wreg: bool,
    dreg: bool,
    shut: bool,
    dropped: bool,
    wrapped: bool,
    content: Vec<(u64, u64)>,
}

struct Sys {
    tx: Arc<UserTx>,
    wr: Option<UtpStreamWriteHalf>,
    max: NonZeroUsize,
    wcnt: Arc<Cnt>,
    dcnt: Arc<Cnt>,
    wwaker: Waker,
    dwaker: Waker,
    /// bytes accepted so far according to the implementation's answers: the next position to write
    pos: u64,
}

struct Rle(Vec<(u64, u64)>);
impl Rle {
    fn feed(&mut self, data: &[u8]) {
        for &b in data {
            let b = b as u64;
            match self.0.last_mut() {
                Some((v, k)) if b < ENC_MOD && *v < ENC_MOD && (*v + *k) % ENC_MOD == b => *k += 1,
                _ => self.0.push((b, 1)),
            }
        }
    }
}

fn err_kind(e: &std::io::Error) -> &'static str {
    match e.to_string().as_str() {
        "socket closed" | "socket died" => "closed",
        "no writing after shutdown" | "shutdown was initiated, can't write" => "shutdown",
        _ => "other",
    }
}

impl Sys {
    fn new(init: usize, max: usize) -> Sys {
        let tx = UserTx::new(NonZeroUsize::new(init).expect("init"));
        let wr = UtpStreamWriteHalf::new(tx.clone());
        let wcnt = Arc::new(Cnt(AtomicUsize::new(0)));
        let dcnt = Arc::new(Cnt(AtomicUsize::new(0)));
        Sys {
            tx,
            wr: Some(wr),
            max: NonZeroUsize::new(max).expect("max"),
            wwaker: Waker::from(wcnt.clone()),
            dwaker: Waker::from(dcnt.clone()),
            wcnt,
            dcnt,
            pos: 0,
        }
    }

    fn obs(&self) -> Obs {
        let (len, cap, wrapped, content) = {
            let c = self.tx.consumer.lock();
            let (first, second) = c.as_slices();
            let mut r = Rle(vec![]);
            r.feed(first);
            r.feed(second);
            (c.occupied_len(), c.capacity().get(), !second.is_empty(), r.0)
        };
        // the producer's view of the same ring (what poll_flush / poll_shutdown look at)
        let plen = self.tx.producer.lock().occupied_len();
        let (wreg, dreg) = {
            let g = self.tx.locked.read();
            (g.writer_waker.is_some(), g.dispatcher_waker.is_some())
        };
        Obs {
            len: if plen == len { len } else { usize::MAX >> 40 }, // the two views must agree
            cap,
            wreg,
            dreg,
            shut: self.tx.is_writer_shutdown(),
            dropped: self.tx.is_writer_dropped(),
            wrapped,
            content,
        }
    }

    fn payload(&self, from: u64, len: usize) -> Vec<u8> {
        (0..len as u64).map(|i| enc(from + i)).collect()
    }

    fn exec(&mut self, c: &Call) -> Ans {
        let mut a = Ans { res: "ok", ..Default::default() };
        let io = |a: &mut Ans, p: Poll<std::io::Result<usize>>| match p {
            Poll::Pending => a.res = "pending",
            Poll::Ready(Ok(n)) => a.n = n,
            Poll::Ready(Err(e)) => {
                a.res = "err";
                a.err = err_kind(&e);
                a.errtext = e.to_string();
            }
        };
        match c {
            Call::Write(len) => {
                let data = self.payload(self.pos, *len);
                let wr = self.wr.as_mut().expect("write after the write half was dropped");
                let mut cx = Context::from_waker(&self.wwaker);
                let p = Pin::new(wr).poll_write(&mut cx, &data);
                io(&mut a, p);
                self.pos += a.n as u64;
            }
            Call::WriteV(lens) => {
                let mut from = self.pos;
                let store: Vec<Vec<u8>> = lens
                    .iter()
                    .map(|&l| {
                        let v = self.payload(from, l);
                        from += l as u64;
                        v
                    })
                    .collect();
                let iov: Vec<IoSlice<'_>> = store.iter().map(|b| IoSlice::new(b)).collect();
                let wr = self.wr.as_mut().expect("write after the write half was dropped");
                let mut cx = Context::from_waker(&self.wwaker);
                let p = Pin::new(wr).poll_write_vectored(&mut cx, &iov);
                io(&mut a, p);
                self.pos += a.n as u64;
            }
            Call::Flush => {
                let wr = self.wr.as_mut().expect("flush after the write half was dropped");
                let mut cx = Context::from_waker(&self.wwaker);
                let p = Pin::new(wr).poll_flush(&mut cx);
                io(&mut a, p.map(|r| r.map(|()| 0)));
            }
            Call::Shutdown => {
                let wr = self.wr.as_mut().expect("shutdown after the write half was dropped");
                let mut cx = Context::from_waker(&self.wwaker);
                let p = Pin::new(wr).poll_shutdown(&mut cx);
                io(&mut a, p.map(|r| r.map(|()| 0)));
            }
            Call::DropWriter => drop(self.wr.take()),
            Call::Ack(n) => {
                // stream_dispatch.rs, process_all_incoming_messages: "Cleanup user side of TX queue,
                // remove the ACKed bytes from the front of it, and notify the writer."
                let mut g = self.tx.locked.write();
                match self.tx.truncate_front(*n) {
                    Ok(()) => {
                        a.n = *n;
                        let waker = g.writer_waker.take();
                        drop(g);
                        if let Some(w) = waker {
                            w.wake();
                        }
                    }
                    Err(e) => {
                        a.res = "err";
                        a.err = "other";
                        a.errtext = format!("{e:#}");
                    }
                }
            }
            Call::Grow => {
                // stream_dispatch.rs, split_tx_queue_into_segments
                match self.tx.grow(self.max) {
                    Some(new_cap) => {
                        a.res = "grown";
                        a.n = new_cap;
                        let w = self.tx.locked.write().writer_waker.take();
                        if let Some(w) = w {
                            w.wake();
                        }
                    }
                    None => a.res = "none",
                }
            }
            Call::Close => self.tx.mark_vsock_closed(),
            Call::RegDisp => {
                // utils::update_optional_waker(&mut g.dispatcher_waker, cx)
                let mut g = self.tx.locked.write();
                match g.dispatcher_waker.as_mut() {
                    Some(w) => w.clone_from(&self.dwaker),
                    None => {
                        g.dispatcher_waker.replace(self.dwaker.clone());
                    }
                }
            }
            Call::Read(off, len) => {
                // send_data!: the payload of a segment is ring[offset .. offset + len]
                let g = self.tx.consumer.lock();
                let (first, second) = g.as_slices();
                // utils::prepare_2_ioslices
                let fo = first.len().min(*off);
                let first = &first[fo..];
                let so = off - fo;
                match second.get(so..) {
                    None => {
                        a.res = "err";
                        a.err = "other";
                        a.errtext = "offset beyond the ring".into();
                    }
                    Some(second) => {
                        let fl = first.len().min(*len);
                        let first = &first[..fl];
                        match second.get(..len - fl) {
                            None => {
                                a.res = "err";
                                a.err = "other";
                                a.errtext = "length beyond the ring".into();
                            }
                            Some(second) => {
                                let mut r = Rle(vec![]);
                                r.feed(first);
                                r.feed(second);
                                a.runs = r.0;
                                a.n = first.len() + second.len();
                            }
                        }
                    }
                }
            }
        }
        a
    }

    /// One call with the wake-ups it caused; Err(message) if the code under test panicked.
    fn step(&mut self, c: &Call) -> Result<(Ans, usize, usize, Obs), String> {
        // Every call of the application half comes with a waker of its own (the write half may be polled from
        // different tasks, `select!` branches, ... over its life): a wake-up counts only if it reaches the waker of
        // the MOST RECENT caller - one that is still registered from an earlier, abandoned wait is not that.
        // (the waiter = the most recent call that was answered Pending; `wcnt` counts wake-ups of ITS waker)
        let app_call = matches!(c, Call::Write(_) | Call::WriteV(_) | Call::Flush | Call::Shutdown);
        let waiter = self.wcnt.clone();
        let waiter_waker = self.wwaker.clone();
        let fresh = Arc::new(Cnt(AtomicUsize::new(0)));
        if app_call {
            self.wwaker = Waker::from(fresh.clone());
        }
        let w0 = waiter.0.load(Ordering::SeqCst);
        let d0 = self.dcnt.0.load(Ordering::SeqCst);
        let (a, o) = sut(|| {
            let a = self.exec(c);
            let o = self.obs();
            (a, o)
        })?;
        let mut woken = waiter.0.load(Ordering::SeqCst) - w0;
        if app_call {
            woken += fresh.0.load(Ordering::SeqCst);
            // (a Pending answer that only yields - the call wakes itself and is polled again - registers nothing)
            let registered = a.res == "pending" && fresh.0.load(Ordering::SeqCst) == 0;
            if registered {
                self.wcnt = fresh;          // this call is the waiter now
            } else {
                self.wwaker = waiter_waker; // nobody new waits: the earlier waiter (if any) still does
            }
        }
        Ok((a, woken, self.dcnt.0.load(Ordering::SeqCst) - d0, o))
    }
}

fn runs_json(runs: &[(u64, u64)]) -> Value {
    Value::Array(runs.iter().map(|(v, k)| json!([v, k])).collect())
}

/// The answer in the layout of MCTxRing's ExpTuple.
fn answer_tuple(a: &Ans, ww: usize, dw: usize, o: &Obs) -> Value {
    json!([a.res, a.n, a.err, ww, dw, runs_json(&a.runs), o.len, o.cap, o.wreg, o.dreg, o.shut, o.dropped, o.wrapped,
           runs_json(&o.content)])
}

/// A line of a recording (TxRingTrace.tla): every line has every field.
fn line(op: &str, a_: usize, b_: usize, a: &Ans, ww: usize, dw: usize, o: &Obs) -> Value {
    json!({"op": op, "a": a_, "b": b_, "res": a.res, "n": a.n, "err": a.err, "wwake": ww, "dwake": dw,
           "runs": runs_json(&a.runs), "len": o.len, "cap": o.cap, "wreg": o.wreg, "dreg": o.dreg,
           "shut": o.shut, "dropped": o.dropped, "wrapped": o.wrapped, "content": runs_json(&o.content),
           "msg": a.errtext})
}

fn panic_line(during: &str, msg: &str) -> Value {
    json!({"op": "panic", "a": 0, "b": 0, "res": during, "n": 0, "err": "", "wwake": 0, "dwake": 0, "runs": [],
           "len": 0, "cap": 0, "wreg": false, "dreg": false, "shut": false, "dropped": false, "wrapped": false,
           "content": [], "msg": msg})
}

fn call_line(c: &Call, a: &Ans, ww: usize, dw: usize, o: &Obs) -> Value {
    match c {
        Call::Write(len) => line("write", *len, *len, a, ww, dw, o),
        Call::WriteV(lens) => {
            // AsyncWrite's default poll_write_vectored hands over the first buffer that is not empty
            let eff = lens.iter().copied().find(|l| *l > 0).unwrap_or(0);
            let mut v = line("write", eff, lens.iter().sum(), a, ww, dw, o);
            v["bufs"] = json!(lens);
            v
        }
        Call::Ack(n) => line("ack", *n, 0, a, ww, dw, o),
        Call::Read(off, len) => line("read", *off, *len, a, ww, dw, o),
        other => line(other.name(), 0, 0, a, ww, dw, o),
    }
}

/// Builds fresh objects and writes the `new` line.  None if that panicked.
fn start(out: &mut Out, init: usize, max: usize, extra: &Value) -> Option<Sys> {
    let a = Ans { res: "ok", ..Default::default() };
    match sut(|| {
        let s = Sys::new(init, max);
        let o = s.obs();
        (s, o)
    }) {
        Ok((sys, o)) => {
            let mut v = line("new", init, max, &a, 0, 0, &o);
            if let Some(m) = extra.as_object() {
                for (k, x) in m {
                    v[k] = x.clone();
                }
            }
            out.line(v);
            Some(sys)
        }
        Err(p) => {
            let o = Obs { len: 0, cap: init, wreg: false, dreg: false, shut: false, dropped: false, wrapped: false, content: vec![] };
            out.line(line("new", init, max, &a, 0, 0, &o));
            out.line(panic_line("new", &p));
            None
        }
    }
}

// ------------------------------------------------------------------------------------------ replay
fn replay(init: usize, max: usize, cases: &str, answers: &str) {
    let f = std::io::BufReader::new(std::fs::File::open(cases).expect("open cases"));
    let mut out = Out::create(answers);
    for l in f.lines() {
        let l = l.unwrap();
        if l.trim().is_empty() {
            continue;
        }
        let v: Value = serde_json::from_str(&l).expect("case json");
        let hist = v[0].as_array().expect("history");
        let mut calls: Vec<Call> = hist.iter().map(Call::parse).collect();
        calls.push(Call::parse(&v[1]));
        let mut answer = Value::Null;
        match sut(|| Sys::new(init, max)) {
            Err(p) => answer = json!({"panic": 0, "msg": p}),
            Ok(mut sys) => {
                let last = calls.len() - 1;
                for (i, c) in calls.iter().enumerate() {
                    match sys.step(c) {
                        Ok((a, ww, dw, o)) => {
                            if i == last {
                                answer = answer_tuple(&a, ww, dw, &o);
                            }
                        }
                        Err(msg) => {
                            answer = json!({"panic": i + 1, "msg": msg});
                            break;
                        }
                    }
                }
            }
        }
        out.line(json!([v[0], v[1], answer]));
    }
    let n = out.finish();
    println!("cases={n}");
}

// ------------------------------------------------------------------------------------------ script
fn script(path: &str, outp: &str) {
    let f = std::io::BufReader::new(std::fs::File::open(path).expect("open script"));
    let mut out = Out::create(outp);
    for l in f.lines() {
        let l = l.unwrap();
        if l.trim().is_empty() {
            continue;
        }
        let v: Value = serde_json::from_str(&l).expect("script json");
        let init = v["cfg"][0].as_u64().expect("init") as usize;
        let max = v["cfg"][1].as_u64().expect("max") as usize;
        let Some(mut sys) = start(&mut out, init, max, &Value::Null) else { continue };
        for c in v["ops"].as_array().expect("ops") {
            let c = Call::parse(c);
            if c.is_writer() && sys.wr.is_none() {
                continue; // no write half to call
            }
            match sys.step(&c) {
                Ok((a, ww, dw, o)) => out.line(call_line(&c, &a, ww, dw, &o)),
                Err(msg) => {
                    out.line(panic_line(c.name(), &msg));
                    break;
                }
            }
        }
    }
    let n = out.finish();
    println!("lines={n}");
}

// ------------------------------------------------------------------------------------------ record
const KIB: usize = 1024;
const CONFIGS: &[(usize, usize)] = &[
    // (initial, maximum) size of the transmit buffer
    (KIB, KIB),             // never grows
    (KIB, 2 * KIB),         // one doubling
    (KIB, 3000),            // 2.93x: doubled, then clamped
    (KIB, 4 * KIB),
    (1500, 4000),
    (2 * KIB, 5000),        // 2.44x
    (3000, 7000),
    (4 * KIB, 12 * KIB),    // 3x
    (4 * KIB, 64 * KIB),
    (4 * KIB, 1024 * KIB),  // 256x: eight doublings
    (16 * KIB, 100_000),    // 6.1x
    (64 * KIB, 64 * KIB),
    (64 * KIB, 1024 * KIB),
    (64 * KIB, 200_000),    // 3.05x
    (8 * KIB, 4 * KIB),     // the maximum below the initial size: the limit is the initial size
    (KIB, KIB + 1),         // grows by one byte
    (2000, 1024 * KIB - 1),
    (10 * KIB, 10 * KIB + 251),
];

/// Every recording starts with these scripted runs, so that every branch of every rule is exercised
/// whatever the seed; the random runs follow.
fn tours() -> Vec<(usize, usize, Vec<Call>)> {
    use Call::*;
    vec![
        // fill, block, acknowledge, wrap, grow while wrapped and full, clamp, reach the limit, graceful end
        (
            1024,
            3000,
            vec![
                RegDisp, Write(1024), Write(1), Flush, Ack(100), Write(1), Write(200), Write(1), Ack(10), Read(900, 100),
                Read(0, 914), Write(10), Grow, Read(0, 1024), Write(2000), Grow, WriteV(vec![0, 5000, 7]), Write(1), Grow,
                Shutdown, Ack(1400), Ack(1600), Flush, RegDisp, Shutdown, Write(1), Flush, Close, Shutdown, Write(1),
                Flush, Close,
            ],
        ),
        // the connection dies with bytes in the ring while the writer waits; then the write half is dropped
        (
            4096,
            4096,
            vec![
                Write(100), RegDisp, Write(5), Write(300), Flush, Close, Flush, Shutdown, Write(1), RegDisp, DropWriter,
                Ack(405), Grow,
            ],
        ),
        // the writer waits for room when the connection dies; the maximum is below the initial size
        (
            8192,
            4096,
            vec![Write(8000), Write(8000), Grow, Write(1), Ack(1), Write(2), Write(1), Close, Write(1), Shutdown, Flush],
        ),
        // yield: a writer that was handed much room is asked to let others run
        (
            65536,
            200_000,
            vec![
                Write(9000), Write(1), Write(100_000), Write(1), Write(1), Grow, Write(100_000), Write(100_000), Grow,
                Write(100_000), Ack(1400), Write(100_000), Write(100_000), Read(130_000, 1400), Ack(198_600), Flush,
                RegDisp, DropWriter, Close,
            ],
        ),
    ]
}

struct Gen {
    r: Rng,
    wsize: u64,  // 0 tiny, 1 medium, 2 large, 3 boundary
    acker: u64,  // 0 fast, 1 packet-sized, 2 slow, 3 stopped
    grow: u64,   // 0 as the connection task (above 90 % full), 1 eager (any time), 2 never
    ending: u64, // 0 graceful (flush, shutdown, close), 1 closed with data, 2 writer dropped, 3 closed twice, 4 none
}

impl Gen {
    fn pick_write(&mut self, room: usize, cap: usize) -> usize {
        let r = &mut self.r;
        let v = match self.wsize {
            0 => 1 + r.below(64) as usize,
            1 => 1 + r.below(3000) as usize,
            2 => match r.below(4) {
                0 => 100_000,
                1 => 1 + r.below(100_000) as usize,
                2 => 8192 + r.below(3) as usize,
                _ => 1 + r.below(20_000) as usize,
            },
            _ => match r.below(10) {
                0 => room,
                1 => room + 1,
                2 => room.saturating_sub(1),
                3 => cap,
                4 => 8193,
                5 => 251 * (1 + r.below(8) as usize),
                6 => 1,
                7 => cap / 2,
                _ => 1 + r.below(2 * cap as u64) as usize,
            },
        };
        v.clamp(1, 100_000)
    }

    fn pick_ack(&mut self, len: usize) -> usize {
        let r = &mut self.r;
        let v = match r.below(8) {
            0 => len,
            1 => 1,
            2 => 1400.min(len),
            3 => len.saturating_sub(1),
            4 => 1 + r.below(len as u64) as usize,
            _ => (1 + r.below(1400) as usize) * (1 + r.below(3) as usize),
        };
        v.clamp(1, len)
    }
}

fn record(seed: u64, n: usize, path: &str) {
    let mut out = Out::create(path);
    let mut top = Rng(seed.wrapping_mul(0x9E37_79B9_7F4A_7C15) ^ 0x7852_1A6B);
    let mut run = 0u64;
    // ---- the scripted tours
    for (init, max, ops) in tours() {
        let extra = json!({"run": run, "profile": "tour"});
        run += 1;
        let Some(mut sys) = start(&mut out, init, max, &extra) else { continue };
        for c in ops {
            match sys.step(&c) {
                Ok((a, ww, dw, o)) => out.line(call_line(&c, &a, ww, dw, &o)),
                Err(msg) => {
                    out.line(panic_line(c.name(), &msg));
                    break;
                }
            }
        }
    }
    // ---- seeded random runs
    while out.lines < n {
        let (init, max) = CONFIGS[((run + seed) % CONFIGS.len() as u64) as usize];
        let mut g = Gen { r: Rng(top.next()), wsize: 0, acker: 0, grow: 0, ending: 0 };
        g.wsize = g.r.below(4);
        g.acker = g.r.below(4);
        g.grow = g.r.below(3);
        g.ending = g.r.below(5);
        let body = 40 + g.r.below(if run % 3 == 0 { 260 } else { 100 }) as usize;
        let extra = json!({"run": run, "profile": [g.wsize, g.acker, g.grow, g.ending]});
        run += 1;
        let Some(mut sys) = start(&mut out, init, max, &extra) else { continue };
        // what the driver last observed
        let mut len = 0usize;
        let mut cap = init;
        let mut blocked = false; // the writer was answered Pending and has not been woken since
        let mut dead = false;
        let doit = |sys: &mut Sys, out: &mut Out, c: Call, len: &mut usize, cap: &mut usize, blocked: &mut bool| -> Option<Ans> {
            match sys.step(&c) {
                Ok((a, ww, dw, o)) => {
                    out.line(call_line(&c, &a, ww, dw, &o));
                    *len = o.len;
                    *cap = o.cap;
                    if c.is_writer() {
                        *blocked = a.res == "pending" && ww == 0;
                    } else if ww > 0 {
                        *blocked = false;
                    }
                    Some(a)
                }
                Err(msg) => {
                    out.line(panic_line(c.name(), &msg));
                    None
                }
            }
        };
        macro_rules! call {
            ($c:expr) => {
                match doit(&mut sys, &mut out, $c, &mut len, &mut cap, &mut blocked) {
                    Some(a) => a,
                    None => {
                        dead = true;
                        break;
                    }
                }
            };
        }
        let mut i = 0usize;
        while i < body && sys.pos < 900_000_000 {
            i += 1;
            // ---- the writer: waits while it is blocked (rarely polls again although nobody woke it)
            if sys.wr.is_some() && (!blocked || g.r.below(8) == 0) {
                let k = 1 + g.r.below(3);
                for _ in 0..k {
                    let c = match g.r.below(20) {
                        0 | 1 => Call::Flush,
                        2 | 3 => {
                            let nb = 2 + g.r.below(3) as usize;
                            let mut v: Vec<usize> = (0..nb).map(|_| g.pick_write(cap - len.min(cap), cap)).collect();
                            if g.r.below(2) == 0 {
                                v[0] = 0; // an empty buffer in front
                            }
                            Call::WriteV(v)
                        }
                        _ => Call::Write(g.pick_write(cap - len.min(cap), cap)),
                    };
                    let a = call!(c);
                    i += 1;
                    if a.res != "ok" {
                        break;
                    }
                }
                if dead {
                    break;
                }
            }
            // ---- the connection task: reads segments, grows, acknowledges, registers its waker
            if len > 0 && g.r.below(3) == 0 {
                for _ in 0..1 + g.r.below(2) {
                    let l = (1 + g.r.below(1400) as usize).min(len);
                    let off = match g.r.below(4) {
                        0 => 0,
                        1 => len - l,
                        _ => g.r.below((len - l + 1) as u64) as usize,
                    };
                    call!(Call::Read(off, l));
                    i += 1;
                }
                if dead {
                    break;
                }
            }
            let want_grow = match g.grow {
                0 => len as f64 / cap as f64 > 0.9,
                1 => g.r.below(12) == 0,
                _ => false,
            };
            if want_grow {
                call!(Call::Grow);
                i += 1;
            }
            if len > 0 {
                let acks = match g.acker {
                    0 => 1 + g.r.below(3),
                    1 => g.r.below(3),
                    2 => u64::from(g.r.below(6) == 0),
                    _ => 0,
                };
                for _ in 0..acks {
                    if len == 0 {
                        break;
                    }
                    let nn = if g.acker == 0 && g.r.below(2) == 0 { len } else { g.pick_ack(len) };
                    call!(Call::Ack(nn));
                    i += 1;
                }
                if dead {
                    break;
                }
            }
            if (len == 0 && g.r.below(3) == 0) || g.r.below(25) == 0 {
                call!(Call::RegDisp);
                i += 1;
            }
        }
        if dead {
            continue;
        }
        // ---- the ending
        let mut tail: Vec<Call> = vec![];
        match g.ending {
            0 => {
                // graceful: everything is acknowledged, the FIN is requested, the connection finishes
                tail.push(Call::Flush);
                tail.push(Call::Shutdown);
                tail.push(Call::Ack(usize::MAX)); // (everything: resolved below)
                tail.push(Call::Flush);
                tail.push(Call::RegDisp);
                tail.push(Call::Shutdown);
                tail.push(Call::Write(1 + g.r.below(100) as usize));
                tail.push(Call::Close);
                tail.push(Call::Shutdown);
                tail.push(Call::Write(1));
            }
            1 | 3 => {
                // the connection dies: sometimes while the writer waits, sometimes with data outstanding
                if g.r.below(2) == 0 {
                    tail.push(Call::Write(100_000));
                    tail.push(Call::Write(100_000));
                }
                if g.r.below(2) == 0 {
                    tail.push(if g.r.below(2) == 0 { Call::Flush } else { Call::Shutdown });
                }
                tail.push(Call::Close);
                if g.ending == 3 {
                    tail.push(Call::Close);
                }
                for _ in 0..3 {
                    tail.push(match g.r.below(3) {
                        0 => Call::Write(1 + g.r.below(5000) as usize),
                        1 => Call::Flush,
                        _ => Call::Shutdown,
                    });
                }
                tail.push(Call::Write(1));
                tail.push(Call::Flush);
                tail.push(Call::Shutdown);
            }
            2 => {
                tail.push(Call::RegDisp);
                tail.push(Call::DropWriter);
                tail.push(Call::Ack(usize::MAX));
                tail.push(Call::Grow);
                tail.push(Call::Close);
            }
            _ => {}
        }
        for c in tail {
            if c.is_writer() && sys.wr.is_none() {
                continue;
            }
            let c = match c {
                Call::Ack(_) if len == 0 => continue,
                Call::Ack(x) => Call::Ack(x.min(len)),
                other => other,
            };
            if doit(&mut sys, &mut out, c, &mut len, &mut cap, &mut blocked).is_none() {
                break;
            }
        }
    }
    let lines = out.finish();
    println!("lines={lines} runs={run}");
}

fn main() {
    // panics of the code under test are data, not noise; the driver's own are reported
    std::panic::set_hook(Box::new(|info| {
        if !IN_SUT.load(Ordering::SeqCst) {
            eprintln!("unit_utx: {info}");
        }
    }));
    let a: Vec<String> = std::env::args().collect();
    match a.get(1).map(|s| s.as_str()) {
        Some("replay") if a.len() == 6 => replay(a[2].parse().expect("init"), a[3].parse().expect("max"), &a[4], &a[5]),
        Some("script") if a.len() == 4 => script(&a[2], &a[3]),
        Some("record") if a.len() == 5 => record(a[2].parse().expect("seed"), a[3].parse().expect("n"), &a[4]),
        _ => {
            eprintln!(
                "usage: unit_utx replay <init> <max> <cases.ndjson> <answers.ndjson> | script <script.ndjson> <out.ndjson> | record <seed> <n> <out.ndjson>"
            );
            std::process::exit(2);
        }
    }
}
